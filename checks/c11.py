"""C11 — a program state's answers do not depend on its past requests."""
import itertools
import json
import vlib
import gen_core as G
import core_cmp as C

LIBS = ['lib1', 'lib2']
DEFERRED = ['mapped', 'made', 'picked', 'indexed']   # library arrays of deferred callback applications
UNMODELLED = ['objectRemoveKey', 'mergePatch', 'prune', 'objectValues', 'mapWithKey']


def N(x):
    return ('num', float(x))


def V(x):
    return ('var', x)


def lib_ref(rng):
    return ('implib', rng.choice(LIBS))


def gen_lib(rng, gen):
    """A library: an object with a few shared fields (values, functions, traced and failing thunks)."""
    members = []
    members.append(('fix', 'n', False, 'd', None, gen.gen('num', {}, 2, True)))
    members.append(('fix', 'arr', False, 'd', None, gen.gen('arr', {}, 3, True)))
    members.append(('fix', 'obj', False, 'd', None, gen.gen('obj', {}, 3, True)))
    members.append(('fix', 'boom', False, 'h', None, ('error', ('str', 'boom from library'))))
    members.append(('fix', 'deep', False, 'h', [('k', None)],
                    ('if', ('binary', 'eq', V('k'), N(0)), N(0), ('binary', 'add', N(1), ('call', ('field', ('self',), 'deep'), [('p', ('binary', 'sub', V('k'), N(1)))], False)))))
    members.append(('fix', 'deep40', False, 'h', None, ('call', ('field', ('self',), 'deep'), [('p', N(40))], False)))
    members.append(('fix', 'shared', False, 'h', None, ('std', 'trace', [('str', 'shared'), gen.gen('any', {}, 2, True)])))
    members.append(('fix', 'id', False, 'h', [('x', None)], V('x')))
    # deferred callback applications (one pending call per element) that fail for some elements / at some depths
    cb = ('func', [('i', None)], ('if', ('binary', 'eq', V('i'), N(rng.randrange(0, 4))), ('error', ('str', 'callback failed')),
                                  ('call', ('field', ('self',), 'deep'), [('p', ('binary', 'mul', V('i'), N(rng.choice([5, 30, 70]))))], False)))
    members.append(('fix', 'mapped', False, 'h', None, ('std', 'map', [cb, ('array', [N(0), N(1), N(2), N(3)])])))
    members.append(('fix', 'made', False, 'h', None, ('std', 'makeArray', [N(4), cb])))
    # the same through the other callback builtins: deferred map function behind an eager filter, index / key callbacks,
    # folds whose callback fails at some element or depth (their frames are pushed per element / per level)
    four = ('array', [N(0), N(1), N(2), N(3)])
    members.append(('fix', 'picked', False, 'h', None, ('std', 'filterMap', [('func', [('i', None)], ('binary', 'ge', V('i'), N(rng.randrange(0, 2)))), cb, four])))
    members.append(('fix', 'indexed', False, 'h', None, ('std', 'mapWithIndex', [('func', [('j', None), ('i', None)], cb[2]), four])))
    members.append(('fix', 'keyed', False, 'h', None, ('std', 'mapWithKey', [('func', [('j', None), ('i', None)], cb[2]),
                                                                          ('object', [('fix', 'k%d' % i, False, 'd', None, N(i)) for i in range(4)])])))
    members.append(('fix', 'folded', False, 'h', None, ('std', rng.choice(['foldl', 'foldr']),
                                                        [('func', [('a', None), ('i', None)], ('binary', 'add', ('binary', 'mul', V('a'), N(0)), cb[2])),
                                                         ('array', [N(rng.randrange(0, 4)) for _ in range(rng.randrange(0, 3))]), N(0)])))
    members.append(('fix', 'kept', False, 'h', None, ('std', 'filter', [('func', [('i', None)], ('binary', 'ge', cb[2], N(0))), four])))
    # asserts inherited from a super layer; the extension breaks them
    members.append(('fix', 'base', False, 'h', None, ('object', [('assert', ('binary', 'gt', ('field', ('self',), 'x'), N(0)), ('str', 'base assertion')),
                                                                 ('fix', 'x', False, 'd', None, N(1))])))
    members.append(('fix', 'bad', False, 'h', None, ('binary', 'add', ('field', ('self',), 'base'), ('object', [('fix', 'x', False, 'd', None, N(-1))]))))
    members.append(('fix', 'bad2', False, 'h', None, ('binary', 'add', ('binary', 'add', ('field', ('self',), 'base'), ('object', [('fix', 'y', False, 'd', None, N(2))])),
                                                      ('object', [('fix', 'x', False, 'd', None, N(0))]))))
    members.append(('fix', 'layered', False, 'h', None, ('binary', 'add', ('object', [('fix', 'a', False, 'd', None, N(1)), ('fix', 'b', False, 'h', None, N(2))]),
                                                         ('object', [('fix', 'c', False, 'd', None, N(3)), ('fix', 'd', False, 'f', None, ('sfield', 'a'))]))))
    members.append(('fix', 'patch', False, 'h', None, ('object', [('fix', 'x', False, 'd', None, N(-5))])))
    members.append(('fix', 'okpatch', False, 'h', None, ('object', [('fix', 'x', False, 'd', None, N(7)), ('fix', 'y', False, 'd', None, ('field', ('self',), 'x'))])))
    return ('object', members)


def gen_source(rng, gen):
    """A request source: uses library values; some fail (explicit error, deep recursion, library error)."""
    l = lib_ref(rng)
    k = rng.random()
    if k < 0.05:
        return ('array', [('field', l, 'n'), ('field', lib_ref(rng), 'arr'), ('field', l, 'shared')])
    if k < 0.24:
        which = rng.random()
        if which < 0.3:
            return ('index', ('field', l, rng.choice(DEFERRED)), N(rng.randrange(0, 4)))
        if which < 0.45:
            return ('field', l, rng.choice(DEFERRED + ['keyed', 'folded', 'kept']))
        if which < 0.5:
            return ('std', 'length', [('field', l, rng.choice(DEFERRED + ['keyed', 'kept']))])
        if which < 0.6:
            return ('field', ('field', l, rng.choice(['bad', 'bad2', 'base'])), 'x')
        if which < 0.72:
            # derived views of one shared layered object, in any order (caches on the shared object must not leak)
            o = ('field', l, 'layered')
            key = ('str', rng.choice(['a', 'b', 'c', 'd', 'zz']))
            return rng.choice([
                ('std', 'objectFieldsEx', [o, (rng.choice(['true', 'false']),)]),
                ('std', 'objectRemoveKey', [o, key]),
                ('std', 'objectFieldsEx', [('std', 'objectRemoveKey', [o, key]), ('true',)]),
                ('binary', 'add', ('std', 'objectRemoveKey', [o, key]), ('object', [('fix', 'e', False, 'd', None, N(5))])),
                ('std', 'mergePatch', [o, ('object', [('dyn', key, False, 'd', None, ('null',))])]),
                ('std', 'objectHasEx', [o, key, ('true',)]),
                ('binary', 'eq', o, ('std', 'objectRemoveKey', [o, key])),
                ('std', 'length', [o]), o, ('std', 'prune', [o]), ('std', 'objectValues', [o]),
                ('std', 'mapWithKey', [('func', [('k', None), ('v', None)], ('array', [V('k'), V('v')])), o]),
                ('field', ('binary', 'add', o, ('object', [('fix', 'a', False, 'd', None, N(9))])), 'd'),
            ])
        if which < 0.85:
            # both operands are shared values that earlier requests may have checked on their own
            return rng.choice([('field', l, 'patch'), ('field', l, 'okpatch'), ('field', l, 'base'),
                               ('binary', 'add', ('field', l, 'base'), ('field', l, 'patch')),
                               ('field', ('binary', 'add', ('field', l, 'base'), ('field', l, 'patch')), 'x'),
                               ('binary', 'add', ('field', l, 'base'), ('field', l, 'okpatch')),
                               ('binary', 'add', ('binary', 'add', ('field', l, 'base'), ('field', l, 'okpatch')), ('field', l, 'patch'))])
        if which < 0.9:
            return ('field', l, rng.choice(['bad', 'bad2', 'base']))
        return ('binary', 'add', ('field', l, rng.choice(['bad', 'bad2'])), ('object', [('fix', 'x', False, 'd', None, N(rng.choice([-5, 5])))]))
    if k < 0.25:
        return ('field', l, 'boom')
    if k < 0.40:
        return ('binary', 'add', ('field', l, 'deep40'), N(rng.randrange(3)))
    if k < 0.50:
        return ('call', ('field', l, 'deep'), [('p', N(rng.choice([3, 20, 60, 200])))], False)
    if k < 0.60:
        return ('binary', 'add', ('field', l, 'obj'), ('object', [('fix', 'extra', False, 'd', None, ('field', lib_ref(rng), 'n'))]))
    if k < 0.70:
        return ('array', [('field', l, 'shared'), ('field', l, 'shared'), ('sindex', ('str', 'zz_never_interned_' + str(rng.randrange(5)))) if False else N(1)])
    if k < 0.78:
        return ('object', [('fix', 'b', False, 'd', None, ('sindex', ('str', 'fresh_' + rng.choice('abcdef'))))])
    if k < 0.85:
        return ('object', [('fix', 'fresh_' + rng.choice('abcdef'), False, 'd', None, ('field', l, 'n'))])
    if k < 0.89:
        return ('error', ('binary', 'add', ('str', 'explicit '), ('field', l, 'n')))
    if k < 0.93:
        # a failing object assertion followed by another failure: re-evaluation must repeat the first one
        o = ('object', [('fix', 'a', False, 'd', None, N(1)),
                        ('assert', ('binary', 'ge', ('field', ('self',), 'a'), N(2)), ('str', 'object assertion'))])
        if rng.random() < 0.5:
            # the assertion comes from a super layer, the extension has none of its own
            o = ('binary', 'add', ('object', [('fix', 'a', False, 'd', None, N(5)),
                                              ('assert', ('binary', 'ge', ('field', ('self',), 'a'), N(2)), ('str', 'object assertion'))]),
                 ('object', [('fix', 'a', False, 'd', None, N(1))]))
        return ('local', [('o', None, o)], ('array', [('field', V('o'), 'a'), ('error', ('str', 'second failure'))]))
    env = {}
    return ('local', [('q', None, l)], gen.gen('any', {'q': 'obj'}, 3, False))


def related_sources(rng):
    """Sources that are views of the SAME shared library values (operands, then their combination; an object,
    then what is derived from it): an answer that leaks a cache or a 'checked' mark from one request into the
    next needs exactly such a group, in some order."""
    l = lib_ref(rng)
    base, patch, okpatch, layered = (('field', l, n) for n in ('base', 'patch', 'okpatch', 'layered'))
    key = ('str', rng.choice(['a', 'b', 'c', 'd']))
    groups = [
        [base, patch, okpatch, ('field', base, 'x'), ('field', patch, 'x'),
         ('binary', 'add', base, patch), ('field', ('binary', 'add', base, patch), 'x'),
         ('binary', 'add', base, okpatch), ('field', ('binary', 'add', base, okpatch), 'y'),
         ('binary', 'add', ('binary', 'add', base, okpatch), patch),
         ('binary', 'eq', ('binary', 'add', base, patch), ('binary', 'add', base, okpatch)),
         # derived objects are new selves: the asserts of the source are checked against THEM
         ('std', 'objectRemoveKey', [base, ('str', 'x')]), ('std', 'length', [('std', 'objectRemoveKey', [base, ('str', 'x')])]),
         ('std', 'objectRemoveKey', [('binary', 'add', base, okpatch), ('str', 'x')]),
         ('std', 'objectRemoveKey', [base, ('str', 'nothing')]),
         ('std', 'mapWithKey', [('func', [('k', None), ('v', None)], V('v')), base]),
         ('std', 'mergePatch', [base, ('object', [('fix', 'x', False, 'd', None, ('null',))])]),
         ('std', 'prune', [base])],
        [layered, ('std', 'objectFieldsEx', [layered, ('true',)]), ('std', 'objectFieldsEx', [layered, ('false',)]),
         ('std', 'length', [layered]), ('binary', 'eq', layered, layered),
         ('std', 'objectRemoveKey', [layered, key]),
         ('std', 'objectFieldsEx', [('std', 'objectRemoveKey', [layered, key]), ('true',)]),
         ('std', 'length', [('std', 'objectRemoveKey', [layered, key])]),
         ('binary', 'add', ('std', 'objectRemoveKey', [layered, key]), ('object', [('fix', 'e', False, 'd', None, N(5))])),
         ('std', 'objectHasEx', [('std', 'objectRemoveKey', [layered, key]), key, ('true',)]),
         ('field', ('binary', 'add', layered, ('object', [('fix', 'a', False, 'd', None, N(9))])), 'd'),
         ('std', 'mergePatch', [layered, ('object', [('dyn', key, False, 'd', None, ('null',))])])],
    ]
    # a name that one source computes at run time and another one merely mentions: whether the interner already
    # knows a name must not change what an absent-field access answers (also when the object's asserts fail)
    nm = 'zq' + rng.choice('abcdef')
    failing = ('object', [('assert', ('false',), ('str', 'object assertion')), ('fix', 'a', False, 'd', None, N(1))])
    okobj = ('object', [('fix', 'a', False, 'd', None, N(1))])
    computed = ('binary', 'add', ('str', nm[:2]), ('str', nm[2:]))
    groups.append([('index', failing, computed), ('object', [('fix', nm, False, 'd', None, N(1))]), ('index', okobj, computed),
                   ('std', 'objectHasEx', [failing, computed, ('true',)]), ('field', failing, 'a'),
                   ('local', [(nm, None, N(2))], ('var', nm)), ('index', ('binary', 'add', failing, okobj), computed)])
    g = rng.choice(groups)
    return rng.sample(g, rng.randrange(3, 5))


def conv_impl_item(it):
    if it.startswith('ok_'):
        try:
            v = json.loads(vlib.unhx(it[3:]).decode('utf-8'), parse_int=lambda s: float(s))
            return 'ok_' + C.canon_json(v)
        except Exception:
            return it
    return it


def norm_item(it):
    return C.norm(it.replace('_', ' ', 3) if it.startswith('err_eval_') else it.replace('_', ' ', 1)) if it.startswith(('ok_', 'err_')) else it


def run(rep):
    rep.rule = ("histories of load / eval / manifest / gc / max-stack requests over a pool of generated sources that share "
                "two imported libraries (shared thunks through the import cache), in random orders with failing requests "
                "(explicit errors, library errors, stack overflows at varying depth) interleaved; each request's outcome in "
                "the shared state is compared with its outcome on a fresh state with the same limit; non-trivial = history "
                "with >= 3 eval requests of which >= 1 fails and >= 1 succeeds; distinct by history text")
    rep.assumptions = ["std.trace output is not compared across histories (memoised thunks legitimately do not re-emit)",
                       "a request whose fresh outcome is StackOverflow may succeed on the shared state with the value a larger "
                       "limit gives (memoised sub-results shorten later depth): known finding c11:memoised-depth"]
    vlib.prelude(rep, extra_modules=['RsjProps.C04Eval', 'RsjProps.C11Eval'])
    rng = rep.rng
    quick = rep.tier == 'quick'
    gen = G.Gen(rng, max_depth=3, allow_std=True)
    nhist = 500 if quick else 6000
    hist_lines, model_lines, pipe_lines, metas = [], [], [], []
    fresh_jobs = []   # (hist index, request index, source index, max_stack)
    for h in range(nhist):
        libs = {n: gen_lib(rng, gen) for n in LIBS}
        related = rng.random() < 0.3
        srcs = related_sources(rng) if related else [gen_source(rng, gen) for _ in range(rng.randrange(2, 5))]
        rep.bump('history:' + ('related-views' if related else 'mixed'))
        reqs = []
        ms = 500
        for _ in range(rng.randrange(3, 7 if quick else 11)):
            k = rng.random()
            if k < 0.12:
                reqs.append('gc')
            elif k < 0.25:
                ms = rng.choice([500, 500, 80, 30, 12, 2000])
                reqs.append('maxstack:%d' % ms)
            else:
                reqs.append('eval:%d' % rng.randrange(len(srcs)))
        files = ['file:%s=%s' % (vlib.hx(n + '.libsonnet'), vlib.hx(G.to_jsonnet(e))) for n, e in libs.items()]
        loads = ['load:%s' % vlib.hx(G.to_jsonnet(s)) for s in srcs]
        hist_lines.append('hist ' + ' '.join(files + loads + reqs))
        model_lines.append('core hist 500 8000 | ' + ' | '.join(
            ['lib %s %s' % (vlib.hx('$' + n), G.to_sexp(e)) for n, e in libs.items()] +
            ['src ' + G.to_sexp(s) for s in srcs] + ['req ' + ' '.join(reqs)]))
        # the same history with the SOURCE TEXTS of libraries and sources through the whole-pipeline model
        # (`import "<lib>.libsonnet"` stands for the root variable `$<lib>`, as in the S-expression form)
        pipe_lines.append('pipe hist 500 8000 | ' + ' | '.join(
            ['lib %s %s %s' % (vlib.hx('$' + n), vlib.hx(n + '.libsonnet'), vlib.hx(G.to_jsonnet(e))) for n, e in libs.items()] +
            ['src ' + vlib.hx(G.to_jsonnet(s)) for s in srcs] + ['req ' + ' '.join(reqs)]))
        metas.append((libs, srcs, reqs, files))
        ms = 500
        for ri, r in enumerate(reqs):
            if r.startswith('maxstack:'):
                ms = int(r.split(':')[1])
            elif r.startswith('eval:'):
                fresh_jobs.append((h, ri, int(r.split(':')[1]), ms))
    io = vlib.impl(hist_lines)
    mo = vlib.model(model_lines)
    import time
    t0 = time.time()
    po = vlib.model(pipe_lines)
    pstat = {'histories': len(pipe_lines), 'answered': 0, 'front_unsupported': 0, 'requests_compared': 0,
             'model_seconds': round(time.time() - t0, 2)}
    rep.extra['pipeline'] = pstat
    # fresh-state runs: one Program per request (same library files, same limit), plus a high-limit run
    fresh_lines, fresh_big = [], []
    for h, ri, k, ms in fresh_jobs:
        libs, srcs, reqs, files = metas[h]
        fresh_lines.append('hist ' + ' '.join(files + ['load:%s' % vlib.hx(G.to_jsonnet(srcs[k])), 'maxstack:%d' % ms, 'eval:0']))
        fresh_big.append('hist ' + ' '.join(files + ['load:%s' % vlib.hx(G.to_jsonnet(srcs[k])), 'maxstack:100000', 'eval:0']))
    fo = vlib.impl(fresh_lines)
    fb = vlib.impl(fresh_big)
    fresh = {}
    for (h, ri, k, ms), a, b in zip(fresh_jobs, fo, fb):
        fresh[(h, ri)] = (a.split(';')[-1], b.split(';')[-1])
    for h, (line, a, b) in enumerate(zip(hist_lines, io, mo)):
        libs, srcs, reqs, files = metas[h]
        nload = len(srcs)
        if a.startswith('panic') or a.startswith('crash'):
            rep.violation('c11:' + line, 'history crashed: ' + a[:160], {'op': line, 'impl': a})
            continue
        items = a.split(';')[nload:]
        mitems = b.split(';') if not b.startswith('bad-op') else []
        evals = [(ri, it) for ri, it in enumerate(items) if reqs[ri].startswith('eval:')]
        nfail = sum(1 for _, it in evals if it.startswith('err'))
        nontriv = len(evals) >= 3 and nfail >= 1 and nfail < len(evals)
        rep.count(line, nontriv, sample={'requests': reqs, 'answers': [it[:60] for it in items]} if nontriv else None)
        for ri, it in evals:
            f, fbig = fresh[(h, ri)]
            rep.bump('eval:' + ('ok' if it.startswith('ok') else it.split('_')[2] if it.startswith('err_eval') else it[:12]))
            if it == f:
                continue
            # allowed difference: fresh overflows, shared gives what a larger limit gives
            if 'StackOverflow' in f and (it == fbig):
                rep.bump('memoised-depth')
                rep.violation('c11:memoised-depth',
                              'a request that overflows on a fresh state succeeds after earlier requests memoised part of it',
                              {'op': line, 'request': ri})
                continue
            rep.violation('c11:' + line + '#%d' % ri,
                          'request %d (%s) answered %s on the shared state but %s on a fresh state' % (ri, reqs[ri], it[:80], f[:80]),
                          {'op': line, 'request': ri, 'shared': it, 'fresh': f, 'fresh_op': fresh_lines[[j for j, x in enumerate(fresh_jobs) if x[0] == h and x[1] == ri][0]]})
        # model correspondence (outcomes per request)
        if mitems and len(mitems) == len(items):
            for ri, (it, mt) in enumerate(zip(items, mitems)):
                if not reqs[ri].startswith('eval:'):
                    continue
                if mt.startswith('unsupported') or mt.startswith('gas'):
                    continue
                if norm_item(conv_impl_item(it)) != norm_item(mt):
                    rep.disagreement('c11m:' + line + '#%d' % ri, 'request outcome differs from the model history',
                                     {'op': line, 'model_op': model_lines[h], 'request': ri, 'impl': conv_impl_item(it)[:300], 'model': mt[:300]})
                    break
        elif not mitems and any(w in model_lines[h] for w in UNMODELLED):
            rep.bump('history-with-unmodelled-builtin')
        elif not mitems:
            rep.disagreement('c11m:' + line, 'model rejected the history', {'op': line, 'model_op': model_lines[h], 'model': b[:200]})
        # pipeline model: the history on source texts (outcomes per request), against the implementation and the S-expression route
        c = po[h]
        if c.startswith(('lib-front', 'src-front')):
            if ' unsupported_' in c:
                pstat['front_unsupported'] += 1
                rep.bump('pipe-history:unsupported')
            else:
                rep.disagreement('c11p:' + line, 'a generated library / source does not pass the static stages of the pipeline model',
                                 {'op': line, 'pipe_op': pipe_lines[h], 'pipe': c[:300]})
            continue
        pitems = c.split(';')
        if len(pitems) != len(items):
            rep.disagreement('c11p:' + line, 'pipeline model rejected the history', {'op': line, 'pipe_op': pipe_lines[h], 'pipe': c[:300]})
            continue
        pstat['answered'] += 1
        rep.bump('pipe-history:answered')
        for ri, (it, pt) in enumerate(zip(items, pitems)):
            if not reqs[ri].startswith('eval:') or pt.startswith('unsupported') or pt.startswith('gas'):
                continue
            pstat['requests_compared'] += 1
            if norm_item(conv_impl_item(it)) != norm_item(pt):
                rep.disagreement('c11p:' + line + '#%d' % ri, 'request outcome differs from the pipeline-model history (source texts)',
                                 {'op': line, 'pipe_op': pipe_lines[h], 'request': ri, 'impl': conv_impl_item(it)[:300], 'pipe': pt[:300]})
                break
            if mitems and len(mitems) == len(items) and not mitems[ri].startswith(('unsupported', 'gas')) and norm_item(mitems[ri]) != norm_item(pt):
                rep.disagreement('c11p:' + line + '#%d' % ri, 'model history via S-expressions and via source texts disagree (printer or lowering)',
                                 {'op': line, 'pipe_op': pipe_lines[h], 'model_op': model_lines[h], 'request': ri, 'model': mitems[ri][:300], 'pipe': pt[:300]})
                break
    # evaluating the same thunk again returns the same outcome (incl. after failures and limit changes)
    again = []
    for h in range(min(nhist, 60 if quick else 1000)):
        libs, srcs, reqs, files = metas[h]
        k = rng.randrange(len(srcs))
        seq = ['eval:%d' % k, 'gc', 'eval:%d' % k, 'maxstack:20', 'eval:%d' % k, 'maxstack:500', 'eval:%d' % k]
        again.append(('hist ' + ' '.join(files + ['load:%s' % vlib.hx(G.to_jsonnet(s)) for s in srcs] + seq), len(srcs)))
    outs = vlib.impl([l for l, _ in again])
    for (line, nload), a in zip(again, outs):
        items = a.split(';')[nload:]
        rep.count(line, True)
        if a.startswith('panic') or a.startswith('crash') or len(items) < 7:
            rep.violation('c11:' + line, 'history crashed: ' + a[:160], {'op': line, 'impl': a})
            continue
        first, second, small, last = items[0], items[2], items[4], items[6]
        if first != second or (first != last):
            rep.violation('c11again:' + line, 're-evaluating the same thunk changed the outcome: %s / %s / %s' % (first[:60], second[:60], last[:60]),
                          {'op': line, 'impl': a})
        if small != first and 'StackOverflow' not in small:
            rep.violation('c11again:' + line, 'outcome under a smaller limit is neither the same nor a stack overflow: ' + small[:80],
                          {'op': line, 'impl': a})


def replay(r):
    vlib.build_harness()
    rp = r['replay']
    a = vlib.impl([rp['op']])[0]
    print('shared:', a)
    bad = 0
    if 'fresh_op' in rp:
        f = vlib.impl([rp['fresh_op']])[0]
        print('fresh :', f)
        nload = sum(1 for w in rp['op'].split(' ') if w.startswith('load:'))
        bad |= a.split(';')[nload + rp['request']] != f.split(';')[-1]
    if 'model_op' in rp:
        print('model :', vlib.model([rp['model_op']])[0])
    if 'pipe_op' in rp:
        print('pipe  :', vlib.model([rp['pipe_op']])[0])
    return 1 if bad else 0
