"""C18 — strings are sequences of code points in every string function.

Implementation (driver op `str`, real Program) vs Lean model (RsjModel/Str.lean), plus
direct oracles that do not use the model: Python `str` is a sequence of code points, so
len / s[i] / s[a:b:c] / find / split / rsplit / join / strip / replace / ord / chr are an
independent reference for the same calls; identities of the property statement are checked
on the implementation's own outputs (join∘split = id, char∘codepoint = id, substr at every
reported findSubstr position = pattern, ...).
"""
import itertools
import vlib

ASCII = ["a", "b", "c", "A", "z", ",", " ", "-"]
WIDE = ["é", "ß", "日", "€", "\U0001F600", "\U0001D11E", "́"]
SPACE = ["\t", "\n", "\x0c", "\r", " ", "\u0085", " "]
# separators / patterns that overlap themselves or each other
SEPS = ["ab", "aba", "aa", "a", "éé", "\U0001F600\U0001F600", "éaé", ",", "é",
        "\U0001F600", "á", "日日", "b", "ba", "€,€"]
HUGE = [10**18, 2**53, 2**63, 2**64, 2**64 + 4096, 2**70, 2**32, 2**32 - 1, 2**31]


def hx(s):
    return vlib.hx(s)


def rand_str(rng, maxlen=10, alpha=None):
    if alpha is None:
        k = rng.random()
        if k < 0.35:
            alpha = rng.sample(ASCII[:3] + WIDE, 2)       # tiny alphabet: repetitions / overlaps
        elif k < 0.7:
            alpha = ASCII[:4] + WIDE
        elif k < 0.8:
            alpha = WIDE
        else:
            alpha = ASCII + WIDE + SPACE
    n = rng.choice([0, 1, 2, 3]) if rng.random() < 0.2 else rng.randrange(0, maxlen + 1)
    return "".join(rng.choice(alpha) for _ in range(n))


def with_seps(rng, sep, maxparts=5):
    """A string built from pieces around `sep` (plus noise from sep's own characters)."""
    alpha = list(set(sep)) + rng.sample(ASCII[:3] + WIDE, 2)
    parts = [rand_str(rng, 3, alpha) for _ in range(rng.randrange(1, maxparts + 1))]
    return sep.join(parts)


def rand_num(rng, n):
    """Returns (text, kind, value): kind in int|frac ; value = python int (trunc toward zero) ;
    neg zero is int 0."""
    k = rng.random()
    if k < 0.5:
        v = rng.randrange(-2, n + 3)
        return (str(v), "int", v)
    if k < 0.6:
        v = rng.randrange(-n - 3, 0)
        return (str(v), "int", v)
    if k < 0.7:
        return ("-0", "int", 0)
    if k < 0.82:
        base = rng.randrange(-3, n + 2)
        fr = rng.choice([".5", ".25", ".75"])
        if base < 0 or (base == 0 and rng.random() < 0.5):
            t = "-%d%s" % (abs(base), fr)
            return (t, "frac", -abs(base))
        return ("%d%s" % (base, fr), "frac", base)
    v = rng.choice(HUGE)
    if rng.random() < 0.35:
        v = -v
    return (str(v), "int", v)


def self_overlapping(p):
    return any(p[:k] == p[-k:] for k in range(1, len(p)))


def non_ascii(s):
    return any(ord(c) > 127 for c in s)


def occurrences(p, s):
    res = []
    if not p:
        return res
    i = s.find(p)
    while i >= 0:
        res.append(i)
        i = s.find(p, i + 1)
    return res


def ans_s(s):
    return "s " + hx(s)


def ans_l(lst):
    return "l " + (",".join(hx(x) for x in lst) if lst else "[]")


def ans_a(lst):
    return "a " + (",".join(str(x) for x in lst) if lst else "-")


def hexlist(lst):
    return ",".join(hx(x) for x in lst) if lst else "[]"


TRIM = "\t\n\x0c\r \u0085 "


def upper_ascii(s):
    return "".join(chr(ord(c) - 32) if "a" <= c <= "z" else c for c in s)


def lower_ascii(s):
    return "".join(chr(ord(c) + 32) if "A" <= c <= "Z" else c for c in s)


# ---------------------------------------------------------------- case builders
# each returns dict(key=line, op=..., expect=str|None (exact) , expect_prefix=..., nontrivial=bool, meta=...)

def mk(line, expect=None, nontrivial=True, **meta):
    if expect is not None and expect.startswith("E ") and not expect.startswith("E indexOutOfRange"):
        nontrivial = False   # an error outcome inspects no position
    return {"key": line, "expect": expect, "nontrivial": bool(nontrivial), "meta": meta}


def c_length(s):
    return mk("str length %s" % hx(s), "n %d" % len(s), non_ascii(s), op="length", s=s)


def c_index(s, num):
    t, kind, v = num
    line = "str index %s %s" % (hx(s), t)
    if kind == "frac" or v < 0:
        return mk(line, "E indexNotValid", non_ascii(s), op="index")
    if v < len(s):
        return mk(line, ans_s(s[v]), non_ascii(s[: v + 1]), op="index")
    if v >= 2**64:
        if v == 2**64:   # `usize::MAX as f64 == 2^64`: accepted as index usize::MAX, then out of range
            return mk(line, "E indexOutOfRange %d/%d" % (2**64 - 1, len(s)), non_ascii(s), op="index")
        return mk(line, "E indexNotValid", non_ascii(s), op="index")
    return mk(line, "E indexOutOfRange %d/%d" % (v, len(s)), non_ascii(s), op="index")


def c_slice(s, a, b, c, std=False):
    """a, b, c: None | (text, kind, v)"""
    line = "str %s %s %s %s %s" % ("stdslice" if std else "slice", hx(s),
                                   a[0] if a else "-", b[0] if b else "-", c[0] if c else "-")
    if a and a[1] == "frac":
        return mk(line, "E sliceStart", non_ascii(s), op="slice")
    if b and b[1] == "frac":
        return mk(line, "E sliceEnd", non_ascii(s), op="slice")
    if c and (c[1] == "frac" or c[2] < 1):
        return mk(line, "E sliceStep", non_ascii(s), op="slice")
    av = a[2] if a else None
    bv = b[2] if b else None
    cv = c[2] if c else None
    # "-0" is 0 (Python None would differ)
    exp = s[av:bv:cv]
    lo = 0 if av is None else (max(0, len(s) + av) if av < 0 else av)
    return mk(line, ans_s(exp), non_ascii(s[: lo + 1]) and len(exp) > 0, op="slice")


def c_substr(s, f, l):
    line = "str substr %s %s %s" % (hx(s), f[0], l[0])
    if f[1] == "frac" or f[2] < 0:
        return mk(line, "E substrFrom", non_ascii(s), op="substr")
    if l[1] == "frac" or l[2] < 0:
        return mk(line, "E substrLen", non_ascii(s), op="substr")
    exp = s[f[2]: f[2] + l[2]]
    return mk(line, ans_s(exp), non_ascii(s[: f[2] + 1]) and len(exp) > 0, op="substr")


def c_find(p, s):
    occ = occurrences(p, s)
    overl = any(occ[i + 1] - occ[i] < len(p) for i in range(len(occ) - 1))
    nt = bool(occ) and (non_ascii(s[: occ[-1]]) or overl)
    return mk("str find %s %s" % (hx(p), hx(s)), ans_a(occ), nt, op="find", p=p, s=s, occ=occ, overl=overl)


def c_split(s, sep):
    line = "str split %s %s" % (hx(s), hx(sep))
    if sep == "":
        return mk(line, "E emptyDelim", False, op="split")
    exp = s.split(sep)
    nt = len(exp) > 1 and (non_ascii(s) or self_overlapping(sep))
    return mk(line, ans_l(exp), nt, op="split", s=s, sep=sep)


def c_splitlimit(s, sep, num, right):
    t, kind, v = num
    line = "str %s %s %s %s" % ("splitlimitr" if right else "splitlimit", hx(s), hx(sep), t)
    op = "splitlimitr" if right else "splitlimit"
    if sep == "":
        return mk(line, "E emptyDelim", False, op=op)
    if kind == "frac":
        return mk(line, "E maxsplitsNotInt", False, op=op)
    if v < 0 and v != -1:
        return mk(line, "E maxsplitsNeg", False, op=op)
    pv = min(v, 2**62)
    # maxsplits == -1: the reference stdlib defines splitLimitR(s, c, -1) = splitLimit(s, c, -1)
    exp = s.rsplit(sep, pv) if (right and v != -1) else s.split(sep, pv)
    full = s.split(sep)
    nt = len(exp) > 1 and (non_ascii(s) or self_overlapping(sep)) and len(exp) < len(full) + 1
    return mk(line, ans_l(exp), nt, op=op, s=s, sep=sep, n=v)


def c_strip(kind, s, cs):
    f = {"strip": s.strip, "lstrip": s.lstrip, "rstrip": s.rstrip}[kind]
    exp = f(cs) if cs else s
    return mk("str %s %s %s" % (kind, hx(s), hx(cs)), ans_s(exp), non_ascii(s) and exp != s,
              op=kind, s=s, cs=cs)


def c_replace(s, f, t):
    exp = s.replace(f, t)
    nt = exp != s and (non_ascii(s) or self_overlapping(f) or f == "")
    return mk("str replace %s %s %s" % (hx(s), hx(f), hx(t)), ans_s(exp), nt, op="replace", s=s, f=f, t=t)


def c_chars(s):
    return mk("str chars %s" % hx(s), ans_l(list(s)), non_ascii(s), op="chars")


def c_reverse(s):
    return mk("str reverse %s" % hx(s), ans_l(list(s[::-1])), non_ascii(s) and len(s) > 1, op="reverse", s=s)


def c_codepoint(s):
    exp = "n %d" % ord(s) if len(s) == 1 else "E notSingleChar"
    return mk("str codepoint %s" % hx(s), exp, non_ascii(s), op="codepoint", s=s)


def c_char(num):
    t, kind, v = num
    ok = 0 <= v <= 0x10FFFF and not (0xD800 <= v <= 0xDFFF)
    exp = ans_s(chr(v)) if ok else "E badCodepoint"
    return mk("str char %s" % t, exp, v > 127, op="char", v=v)


def c_join(sep, xs):
    return mk("str join %s %s" % (hx(sep), hexlist(xs)), ans_s(sep.join(xs)),
              non_ascii(sep + "".join(xs)) and len(xs) > 1, op="join")


def c_simple(op, s):
    if op == "upper":
        exp = ans_s(upper_ascii(s))
    elif op == "lower":
        exp = ans_s(lower_ascii(s))
    elif op == "trim":
        exp = ans_s(s.strip(TRIM))
    elif op == "map":
        exp = ans_l([c + c for c in s])
    elif op == "flatmap":
        exp = ans_s("".join(c + "|" + c for c in s))
    return mk("str %s %s" % (op, hx(s)), exp, non_ascii(s), op=op)


def c_with(op, a, b):
    exp = a.startswith(b) if op == "startswith" else a.endswith(b)
    return mk("str %s %s %s" % (op, hx(a), hx(b)), "b true" if exp else "b false",
              non_ascii(a) and exp and b != "", op=op)


def c_pad(s, w, left, obj=False):
    exp = s + " " * max(0, w - len(s)) if left else " " * max(0, w - len(s)) + s
    return mk("str %s %s %d %d" % ("padobj" if obj else "pad", hx(s), w, 1 if left else 0), ans_s(exp),
              non_ascii(s) and len(s) < w, op="pad")


# ---------------------------------------------------------------- generation

def opt_num(rng, n, pnone=0.3):
    return None if rng.random() < pnone else rand_num(rng, n)


def gen_case(rng):
    r = rng.random()
    s = rand_str(rng)
    n = len(s)
    if r < 0.03:
        return c_length(s)
    if r < 0.11:
        return c_index(s, rand_num(rng, n))
    if r < 0.26:
        c = None if rng.random() < 0.4 else (rand_num(rng, 3) if rng.random() < 0.8 else rand_num(rng, n))
        return c_slice(s, opt_num(rng, n), opt_num(rng, n), c, std=rng.random() < 0.3)
    if r < 0.34:
        return c_substr(s, rand_num(rng, n), rand_num(rng, n))
    if r < 0.50:
        k = rng.random()
        if k < 0.6:
            p = rng.choice(SEPS)
            s2 = with_seps(rng, p) if rng.random() < 0.5 else rand_str(rng, 12, list(set(p)) + [rng.choice(WIDE)])
        elif k < 0.9 and n > 0:
            i = rng.randrange(n)
            p = s[i: i + rng.randrange(1, 4)]
            s2 = s
        elif k < 0.95:
            # periodic pattern inside a longer periodic text: occurrences overlap by a multi-character border
            u = rand_str(rng, 3, rng.sample(ASCII[:3] + WIDE, 2)) or "a"
            p = (u * 3)[: len(u) * 2 + rng.randrange(0, len(u) + 1)]
            s2 = rand_str(rng, 2) + (u * rng.randrange(2, 6))[: rng.randrange(len(p), 6 * len(u) + 1)] + rand_str(rng, 2)
        else:
            p = rand_str(rng, 2)
            s2 = s
        return c_find(p, s2)
    if r < 0.58:
        sep = rng.choice(SEPS) if rng.random() < 0.9 else rand_str(rng, 2)
        s2 = with_seps(rng, sep) if sep and rng.random() < 0.8 else s
        return c_split(s2, sep)
    if r < 0.72:
        sep = rng.choice(SEPS) if rng.random() < 0.93 else ""
        s2 = with_seps(rng, sep, 6) if sep and rng.random() < 0.85 else s
        k = rng.random()
        if k < 0.7:
            v = rng.randrange(-1, 7)
            num = (str(v), "int", v)
        else:
            num = rand_num(rng, 4)
        return c_splitlimit(s2, sep, num, rng.random() < 0.5)
    if r < 0.80:
        cs = "".join(rng.sample(ASCII[:3] + WIDE, rng.randrange(0, 4)))
        alpha = list(cs) + [rng.choice(ASCII[:3] + WIDE)] if cs else None
        s2 = rand_str(rng, 10, alpha)
        return c_strip(rng.choice(["strip", "lstrip", "rstrip"]), s2, cs)
    if r < 0.87:
        f = rng.choice(SEPS + [""]) if rng.random() < 0.9 else rand_str(rng, 2)
        s2 = with_seps(rng, f) if f and rng.random() < 0.8 else s
        return c_replace(s2, f, rand_str(rng, 3))
    if r < 0.89:
        return c_chars(s)
    if r < 0.91:
        return c_reverse(s)
    if r < 0.93:
        return c_codepoint(rng.choice(ASCII + WIDE + ["", "ab", "éé", "é"]))
    if r < 0.95:
        k = rng.random()
        if k < 0.5:
            v = rng.choice([0, 65, 0xE9, 0x7FF, 0x800, 0xFFFF, 0x10000, 0x1F600, 0x10FFFF, 0x110000,
                            0xD7FF, 0xD800, 0xDFFF, 0xE000, 2**32 - 1, 2**32, 2**64, 10**18, -1])
            num = (str(v), "int", v)
        elif k < 0.8:
            v = rng.randrange(0, 0x110400)
            num = (str(v), "int", v)
        else:
            num = rand_num(rng, 200)
        return c_char(num)
    if r < 0.965:
        sep = rng.choice(SEPS + [""])
        return c_join(sep, [rand_str(rng, 3) for _ in range(rng.randrange(0, 5))])
    if r < 0.985:
        op = rng.choice(["upper", "lower", "trim", "map", "flatmap", "startswith", "endswith"])
        if op in ("startswith", "endswith"):
            b = s[: rng.randrange(0, 3)] if op == "startswith" else s[n - min(n, rng.randrange(0, 3)):]
            if rng.random() < 0.3:
                b = rand_str(rng, 2)
            return c_with(op, s, b)
        if op == "trim":
            s = rand_str(rng, 3, SPACE) + rand_str(rng, 5, SPACE + WIDE + ASCII[:3]) + rand_str(rng, 3, SPACE)
        return c_simple(op, s)
    return c_pad(rand_str(rng, 6), rng.randrange(0, 10), rng.random() < 0.5, obj=rng.random() < 0.5)


CORPUS = [
    lambda: c_length("aé\U0001F600"),
    lambda: c_index("aé\U0001F600", ("2", "int", 2)),
    lambda: c_index("aé\U0001F600", (str(2**64), "int", 2**64)),
    lambda: c_index("aé\U0001F600", ("-0", "int", 0)),
    lambda: c_slice("\U0001F600aé日b", ("-3", "int", -3), None, ("2", "int", 2)),
    lambda: c_slice("\U0001F600aé日b", ("3", "int", 3), ("1", "int", 1), None),
    lambda: c_slice("\U0001F600aé日b", None, (str(10**18), "int", 10**18), (str(2**64), "int", 2**64)),
    lambda: c_substr("ééab", ("1", "int", 1), (str(10**18), "int", 10**18)),
    lambda: c_find("aa", "éaaaa\U0001F600aa"),
    lambda: c_find("éaé", "éaéaéaé"),
    lambda: c_find("\U0001F600\U0001F600", "\U0001F600\U0001F600\U0001F600"),
    lambda: c_find("", "abc"),
    lambda: c_find("á", "áaá"),
    lambda: c_split("éabaéababa", "aba"),
    lambda: c_splitlimit("a,é,\U0001F600,d", ",", ("2", "int", 2), False),
    lambda: c_splitlimit("a,é,\U0001F600,d", ",", ("2", "int", 2), True),
    lambda: c_splitlimit("éaaaa", "aa", ("1", "int", 1), True),
    lambda: c_splitlimit("a,b", ",", (str(2**64), "int", 2**64), False),
    # fixed by fbb65b2: a count >= 2^64 fell back to the left-to-right split
    lambda: c_splitlimit("aaa", "aa", (str(10**20), "int", 10**20), True),
    lambda: c_splitlimit("éaaaé", "aa", (str(2**64), "int", 2**64), True),
    lambda: c_splitlimit("aaa", "aa", ("-1", "int", -1), True),
    lambda: c_strip("strip", "é\U0001F600aé", "é\U0001F600"),
    lambda: c_replace("éaaa", "aa", "\U0001F600"),
    lambda: c_replace("aé", "", "-"),
    lambda: c_pad("éé", 3, False),
    lambda: c_pad("éé", 3, False, True),
    lambda: c_pad("\U0001F600", 4, True, True),
    lambda: c_find("abab", "abababab"),
    lambda: c_find("éaéa", "éaéaéaéa"),
    lambda: c_find("aab", "aabaabaab"),
    lambda: c_find("\U0001F600a\U0001F600a", "\U0001F600a\U0001F600a\U0001F600a\U0001F600"),
    lambda: c_pad("\U0001F600", 3, True),
    lambda: c_char(("-0.5", "frac", 0)),
]


def exhaustive(limit_len, alpha, pats):
    """Small-scope exhaustive cases (thorough tier)."""
    out = []
    for L in range(limit_len + 1):
        for tup in itertools.product(alpha, repeat=L):
            s = "".join(tup)
            for p in pats:
                out.append(c_find(p, s))
                out.append(c_split(s, p))
                out.append(c_replace(s, p, "ß"))
                for nn in (0, 1, 2):
                    out.append(c_splitlimit(s, p, (str(nn), "int", nn), False))
                    out.append(c_splitlimit(s, p, (str(nn), "int", nn), True))
            for a in range(-L - 1, L + 2):
                out.append(c_index(s, (str(a), "int", a)))
                for b in range(-L - 1, L + 2):
                    out.append(c_slice(s, (str(a), "int", a), (str(b), "int", b), None))
                    if a >= 0 and b >= 0:
                        out.append(c_substr(s, (str(a), "int", a), (str(b), "int", b)))
    return out


# ---------------------------------------------------------------- oracles on outputs

def parse_l(a):
    if a == "l []":
        return []
    return [vlib.unhx(x).decode("utf-8") for x in a[2:].split(",")]


def parse_s(a):
    return vlib.unhx(a[2:]).decode("utf-8")


def direct_oracle(c, a):
    """Returns a description of the failure or None."""
    if a.startswith("panic") or a.startswith("crash") or a == "bad-op":
        return "driver failure: " + a[:120]
    if c["expect"] is not None and a != c["expect"]:
        return "implementation answered %s, Python reference says %s" % (a[:200], c["expect"][:200])
    m = c["meta"]
    op = m.get("op")
    # identities from the property statement, on the implementation's own output
    if op in ("lstrip", "rstrip", "strip") and a.startswith("s "):
        r, s, cs = parse_s(a), m["s"], m["cs"]
        if r not in s:
            return "strip result is not a substring"
        if op == "lstrip":
            cut = len(s) - len(r)
            if s[cut:] != r or any(ch not in cs for ch in s[:cut]) or (r and r[0] in cs):
                return "lstripChars did not remove exactly the maximal prefix"
        if op == "rstrip":
            if s[: len(r)] != r or any(ch not in cs for ch in s[len(r):]) or (r and r[-1] in cs):
                return "rstripChars did not remove exactly the maximal suffix"
        if op == "strip" and r and (r[0] in cs or r[-1] in cs):
            return "stripChars left a strippable character"
    if op in ("splitlimit", "splitlimitr") and a.startswith("l "):
        pieces, s, sep, n = parse_l(a), m["s"], m["sep"], m["n"]
        if sep.join(pieces) != s:
            return "pieces joined with the separator do not give the string back"
        if n >= 0:
            # non-overlapping scan count (leftmost for splitLimit, rightmost for splitLimitR)
            cnt = (s.count(sep) if op == "splitlimit" else s[::-1].count(sep[::-1]))  # equal counts
            if len(pieces) != min(n, cnt) + 1:
                return "piece count %d != min(n, occurrences)+1 = %d" % (len(pieces), min(n, cnt) + 1)
            inner = pieces[:-1] if op == "splitlimit" else pieces[1:]
            for p in inner:
                if sep in p and not self_overlapping(sep):
                    return "a separator survives inside a split piece"
    return None


def second_round(rep, cases, io):
    """Identities that need another call into the implementation."""
    lines, checks = [], []
    for c, a in zip(cases, io):
        m = c["meta"]
        op = m.get("op")
        if op in ("split", "splitlimit", "splitlimitr") and a.startswith("l "):
            lines.append("str join %s %s" % (hx(m["sep"]), a[2:] if a != "l []" else "[]"))
            checks.append((c, a, ans_s(m["s"]), "std.join(c, std.split*(s, c)) != s"))
        elif op == "find" and a.startswith("a ") and a != "a -" and m["p"]:
            for pos in a[2:].split(",")[:4]:
                lines.append("str substr %s %s %d" % (hx(m["s"]), pos, len(m["p"])))
                checks.append((c, a, ans_s(m["p"]), "std.substr(s, i, std.length(p)) != p at a reported findSubstr position"))
        elif op == "codepoint" and a.startswith("n "):
            lines.append("str char %s" % a[2:])
            checks.append((c, a, ans_s(m["s"]), "std.char(std.codepoint(c)) != c"))
        elif op == "char" and a.startswith("s ") and a != "s -":
            lines.append("str codepoint %s" % a[2:])
            checks.append((c, a, "n %d" % m["v"], "std.codepoint(std.char(n)) != n"))
        elif op == "reverse" and a.startswith("l ") and a != "l []":
            # reverse twice via join + reverse
            lines.append("str reverse %s" % hx("".join(parse_l(a))))
            checks.append((c, a, ans_l(list(m["s"])), "std.reverse(std.reverse(s)) != chars of s"))
        elif op == "replace" and a.startswith("s ") and m["f"]:
            lines.append("str split %s %s" % (hx(m["s"]), hx(m["f"])))
            checks.append((c, a, None, ("replace-vs-split", m["t"], a)))
    if not lines:
        return
    out = vlib.impl(lines)
    for line, o, (c, a, want, what) in zip(lines, out, checks):
        rep.bump("identity_calls")
        if isinstance(what, tuple):
            if o.startswith("l ") and ans_s(what[1].join(parse_l(o))) != what[2]:
                rep.violation("ident:" + c["key"], "std.strReplace(s, f, t) != std.join(t, std.split(s, f))",
                              {"op": c["key"], "second": line, "impl": a[:500], "impl2": o[:500]})
            continue
        if o != want:
            rep.violation("ident:" + c["key"], what, {"op": c["key"], "second": line, "impl": a[:500],
                                                      "impl2": o[:500], "want": want[:500]})


def run(rep):
    rep.rule = ("string-function calls over a mixed alphabet (ASCII, 2/3/4-byte characters, combining mark, "
                "self-overlapping separators, empty strings) with negative / fractional / huge / null numeric "
                "arguments; non-trivial = a non-ASCII character lies at or before the inspected position "
                "(or in the subject string for whole-string functions) or the pattern overlaps itself, and the "
                "call does something (match found / >1 piece / something stripped); distinct by request line")
    rep.assumptions = ["numeric arguments are finite f64 values (Jsonnet numbers cannot be NaN/inf); the model "
                       "abstracts them to (sign, integer part, has-fraction)",
                       "strings hold fewer than 2^64 characters",
                       "Rust std primitives (str::find, split_at, splitn, rsplitn, strip_prefix/suffix, replace, "
                       "trim_matches, chars) modelled from their documented contracts",
                       "arguments reach the functions as Jsonnet literals (lexer \\u escapes, C14)"]
    vlib.prelude(rep)
    n = 20000 if rep.tier == "quick" else 600000
    cases = [f() for f in CORPUS]
    for _ in range(n):
        cases.append(gen_case(rep.rng))
    if rep.tier != "quick":
        cases += exhaustive(4, ["a", "é", "\U0001F600"], ["a", "aa", "aéa", "é", "\U0001F600\U0001F600"])
    else:
        cases += exhaustive(3, ["a", "é"], ["aa", "éaé"])
        for L in range(4, 9):
            for tup in itertools.product(["a", "é"], repeat=L):
                for p in ("aéaé", "éaéa", "aéa", "aaé"):
                    cases.append(c_find(p, "".join(tup)))
    # dedupe by line, keep order
    seen, uniq = set(), []
    for c in cases:
        if c["key"] not in seen:
            seen.add(c["key"])
            uniq.append(c)
    cases = uniq
    lines = [c["key"] for c in cases]
    io = vlib.impl(lines)
    mo = vlib.model(lines)
    for c, a in zip(cases, io):
        op = c["meta"].get("op", "?")
        rep.count(c["key"], c["nontrivial"],
                  sample={"line": c["key"], "impl": a[:200]} if c["nontrivial"] and rep.rng.random() < 0.002 else None)
        rep.bump(op)
        if a.startswith("E "):
            rep.bump("error_outcomes")
        if c["meta"].get("overl"):
            rep.bump("find_overlapping_matches")
        bad = direct_oracle(c, a)
        if bad:
            key = "str:" + c["key"]
            if op == "splitlimitr" and c["meta"].get("n", 0) >= 2**64:
                key = "splitLimitR:maxsplits>=2^64:forward-scan"   # one canonical key for this finding
            rep.violation(key, bad, {"op": c["key"], "impl": a[:1000], "expect": c["expect"]})
    second_round(rep, cases, io)
    slim = [{"key": c["key"]} for c in cases]
    vlib.compare(rep, slim, io, mo, label="str op")


def replay(r):
    rp = r["replay"]
    line = rp.get("op") or rp["case"]["key"]
    vlib.build_harness()
    lines = [line] + ([rp["second"]] if rp.get("second") else [])
    a = vlib.impl(lines)
    b = vlib.model(lines)
    bad = 0
    for l, x, y in zip(lines, a, b):
        print("request:", l)
        print("impl :", x)
        print("model:", y)
        if x != y:
            bad = 1
    if rp.get("expect") is not None:
        print("reference:", rp["expect"])
        if a[0] != rp["expect"]:
            bad = 1
    if rp.get("want") is not None:
        print("identity wants:", rp["want"])
        if a[-1] != rp["want"]:
            bad = 1
    return bad
