"""C16 — span identifiers round-trip; diagnostics locate inside the source."""
import os
import re
import shutil
import subprocess
import tempfile
import vlib
import gen_core as G

BOUNDS = [0, 1, 2, 7, 2**25 - 2, 2**25 - 1, 2**25, 2**25 + 1, 2**26, 2**38 - 2, 2**38 - 1, 2**38, 2**40]


def gen_script(rng, nops):
    ops = []
    ctx_lens = []
    nids = 0
    for _ in range(nops):
        r = rng.random()
        if not ctx_lens or r < 0.25:
            k = rng.random()
            if k < 0.4:
                n = rng.randrange(0, 50)
            elif k < 0.8:
                n = max(0, rng.choice(BOUNDS) + rng.randrange(-2, 3))
            else:
                n = rng.randrange(0, 2**40)
            ops.append("c:%d" % n)
            ctx_lens.append(n)
        elif r < 0.85:
            c = rng.randrange(len(ctx_lens))
            ln = ctx_lens[c]
            k = rng.random()
            if k < 0.1:
                # deliberately out of range / inverted (assert paths)
                s = rng.randrange(0, ln + 3)
                e = rng.randrange(0, ln + 3)
            else:
                s = min(ln, rng.choice([0, ln, rng.randrange(0, ln + 1), max(0, ln - rng.choice(BOUNDS))]))
                l = rng.choice([0, 1, rng.randrange(0, 100)] + BOUNDS[:10])
                e = min(ln, s + l)
            ops.append("i:%d:%d:%d" % (c, s, e))
            if s <= e <= ln:
                nids += 1
        elif nids >= 1:
            ops.append("s:%d:%d" % (rng.randrange(nids), rng.randrange(nids)))
            nids += 1  # may be skipped/fail; indices are checked by both sides
    return ops


def oracle(ops, out):
    """Direct check on the implementation's answer (independent of the model)."""
    items = out.split(";")
    if len(items) != len(ops):
        return "wrong number of answers"
    ctx_lens = []
    ids = []
    for op, it in zip(ops, items):
        p = op.split(":")
        if it.startswith("panic") or it.startswith("crash"):
            return "driver failure: " + it[:80]
        if p[0] == "c":
            ctx_lens.append(int(p[1]))
            expect_new = None
        elif p[0] == "i":
            c, s, e = int(p[1]), int(p[2]), int(p[3])
            ok = c < len(ctx_lens) and s <= e <= ctx_lens[c]
            if not ok:
                if not it.startswith("P"):
                    return "out-of-range registration %s accepted: %s" % (op, it[:60])
                continue
            if it.startswith("P"):
                return "in-range registration %s rejected: %s" % (op, it)
            ids.append((c, s, e))
            expect_new = True
        elif p[0] == "s":
            a, b = int(p[1]), int(p[2])
            if it == "skip":
                if a < len(ids) and b < len(ids):
                    return "surround skipped wrongly"
                continue
            if a >= len(ids) or b >= len(ids):
                return "surround on unknown id answered"
            (c1, s1, _), (c2, _, e2) = ids[a], ids[b]
            if c1 != c2 or s1 > e2:
                if not it.startswith("P"):
                    return "bad surround accepted"
                continue
            if it.startswith("P"):
                return "valid surround rejected: " + it
            ids.append((c1, s1, e2))
        if it.startswith("P"):
            continue
        inner = it[it.index("[") + 1 : it.rindex("]")]
        got = [tuple(int(x) for x in g.split(":")) if not g.startswith("E") else g for g in inner.split(" ")] if inner else []
        if got != ids:
            return "decoded spans %r != registered %r after %s" % (got[-3:], ids[-3:], op)
    return None


def run(rep):
    rep.rule = ("span-manager scripts (insert context / intern / surrounding span) with lengths around "
                "2^25, 2^38 and up to 2^40; non-trivial = >=2 contexts and >=1 span on each of the inline "
                "and interned paths; distinct by script text")
    rep.assumptions = ["sum of context lengths < 2^63 (u64 arithmetic modelled in Nat)",
                       "interner holds < 2^63 spans",
                       "binary_search_by_key modelled by its documented contract"]
    vlib.prelude(rep, cli=True)
    n = 400 if rep.tier == "quick" else 20000
    cases = []
    corpus = [
        "c:10 i:0:2:5 c:3 i:1:0:3 s:0:0 i:0:11:11 i:0:4:3",
        "c:274877906943 i:0:274877906940:274877906943 c:5 i:1:1:2 i:0:0:33554431 i:0:0:33554432 s:2:3",
        "c:0 i:0:0:0 c:0 i:1:0:0 c:1 i:2:1:1 i:2:0:1",
        "c:274877906941 c:0 i:1:0:0 c:0 i:2:0:0 c:7 i:3:0:7 i:3:7:7",
    ]
    for sc in corpus:
        cases.append({"key": sc, "ops": sc.split(" ")})
    for _ in range(n):
        ops = gen_script(rep.rng, rep.rng.randrange(3, 25))
        cases.append({"key": " ".join(ops), "ops": ops})
    lines = ["span " + c["key"] for c in cases]
    io = vlib.impl(lines)
    mo = vlib.model(lines)
    for c, a in zip(cases, io):
        nctx = sum(1 for o in c["ops"] if o.startswith("c:"))
        nontriv = nctx >= 2 and "iN" in a and "iI" in a
        rep.count(c["key"], nontriv, sample={"script": c["key"], "impl": a[:300]} if nontriv else None)
        rep.bump("scripts")
        rep.bump("inline_ids", a.count("iN"))
        rep.bump("interned_ids", a.count("iI"))
        rep.bump("assert_paths", a.count("P"))
        bad = oracle(c["ops"], a)
        if bad:
            rep.violation("span:" + c["key"], bad, {"op": "span " + c["key"], "impl": a[:1000]})
    vlib.compare(rep, cases, io, mo, label="span script")
    diagnostics(rep)


HAND_FAILING = [
    "\ufeff", "\ufeff1", "\u200b", "1 \u0301", "\u00ad", "[\n\ufeff]", "a\u0301\u0301 b",
    "@", "\u00e9", "[1,", "{a: 1", "local", "1 +", "\"abc", "/* unterminated", "|||\n  x\n", "1.", "1e", "0x1", "01",
    "zz", "\n\n\tzz", "\r\n  zz\r\n", "local a = 1;\r\n\ta.b", "\"\u00e9\u00e9\" + zz", "\"\U0001F600\" [zz]", "{a: self.b}",
    "{a: 1}.b", "[1][5]", "error \"boom\"", "assert false : \"m\"; 1", "local f(x) = f(x); f(1)", "local a = a; a",
    "1 / 0", "1 << -1", "{a: 1} < {a: 2}", "std.length(1)", "std.parseJson(\"[1,\")", "\"%d\" % \"x\"", "function(x) x",
    "{[1]: 2}", "{a: 1, a: 2}", "local a = 1, a = 2; a", "function(x, x) 1", "super.a", "$", "self", "import \"missing.libsonnet\"",
    "(import \"lib.libsonnet\").x", "importstr \"missing.txt\"", "import |||\n  a\n|||", "import \"a\" + \"b\"",
    "[x for x in 1]", "{[k]: 1 for k in [1]}", "local f(a, b) = a; f(1)", "local f(a) = a; f(1, 2)", "local f(a) = a; f(b=1)",
    "local f(a) = a; f(a=1, a=2)", "local f(a) = a; f(a=1, 2)", "\t\t{a:\n\t\t\terror \"deep\"}", "1e999", "-1e999 * 10",
]


def mutate_text(rng, src):
    b = bytearray(src.encode("utf-8"))
    if not b:
        return src
    k = rng.random()
    i = rng.randrange(len(b))
    if k < 0.3:
        del b[i]
    elif k < 0.6:
        b.insert(i, rng.choice(b"@#`'\"\\(){}[],;:\n\t "))
    elif k < 0.8:
        del b[i:]
    else:
        b[i] = rng.choice(b"@(){}\"'|/")
    return b.decode("utf-8", "replace")


def line_col(src_bytes, pos):
    pre = src_bytes[:pos]
    line = pre.count(b"\n") + 1
    last = pre.rfind(b"\n")
    prefix = pre[last + 1:]
    return line, prefix


def diagnostics(rep):
    """Part 2: every error carries spans inside the file it names; the CLI report renders and names file:line:col."""
    rng = rep.rng
    quick = rep.tier == "quick"
    gen = G.Gen(rng, max_depth=4)
    from checks.c09 import walk, replace, get, FAULTS_ANY, FAULTS_NOT_IN_OBJ
    srcs = list(HAND_FAILING)
    for _ in range(150 if quick else 4000):
        p = gen.program()
        srcs.append(G.to_jsonnet(p, rng, 0.1, rng.random() < 0.5))
        nodes = []
        walk(p, False, [], nodes)
        path, inobj = rng.choice(nodes)
        kind, name, mk = rng.choice(FAULTS_ANY + ([] if inobj else FAULTS_NOT_IN_OBJ))
        srcs.append(G.to_jsonnet(replace(p, list(path), mk(get(p, path))), rng, 0.0, rng.random() < 0.5))
        srcs.append(mutate_text(rng, srcs[-2]))
    # multi-line spans (primary error span and stack-trace entries) that begin on a line whose number has fewer digits
    # than the line they end on (9->10, 99->100, 999->1000), and their neighbours
    directed = []
    for L in (1, 8, 9, 10, 98, 99, 100, 999):
        pad = "\n" * (L - 1)
        for k in (1, 2, 3):
            mid = "\n" * k
            directed.append(pad + "[1," + mid + "2] + {}")
            directed.append(pad + "local f(x) = error \"boom\"; [f(" + mid + "1" + mid + ")]")
            directed.append(pad + "{ a: (error" + mid + "\"in field\") }")
            directed.append(pad + "local o = {" + mid + "assert false : \"no\"," + mid + "}; o")
            directed.append(pad + "std.length(" + mid + "1" + mid + ")")
            directed.append(pad + "\"abc" + mid + "def")          # unterminated string over several lines
            directed.append(pad + "/* comment" + mid + "never closed")
    srcs += directed
    lib = '{x: error "in library", y: 1}'
    lines = ["diag %s max_stack=60 file:%s=%s" % (vlib.hx(s), vlib.hx("lib.libsonnet"), vlib.hx(lib)) for s in srcs]
    outs = vlib.impl(lines)
    failing = []
    for s, a in zip(srcs, outs):
        w = a.split(" ")
        if a.startswith("panic") or a.startswith("crash"):
            rep.violation("c16diag:" + s, "diagnostic path crashed: " + a[:160], {"src": s, "impl": a})
            continue
        if w[0] != "err":
            continue
        rep.bump("diag:" + w[1] + ":" + w[2])
        spans = w[4:]
        own = int(w[3])
        rep.count("diag:" + s, len(spans) >= 1, sample={"src": s[:120], "diag": a[:160]} if len(spans) >= 2 else None)
        for sp in spans:
            c, st, en, ln, ismain = sp.split(":")
            if c in ("X", "I"):
                rep.violation("c16diag:" + s, "span does not decode to a registered context: " + sp, {"src": s, "impl": a})
                break
            st, en, ln = int(st), int(en), int(ln)
            if not (st <= en <= ln):
                rep.violation("c16diag:" + s, "span %d..%d outside its file of length %d (or start > end)" % (st, en, ln),
                              {"src": s, "impl": a})
                break
        failing.append((s, w, spans[:own]))
    # CLI rendering
    tmp = tempfile.mkdtemp(prefix="verif_c16_", dir="/tmp")
    try:
        with open(os.path.join(tmp, "lib.libsonnet"), "w") as f:
            f.write(lib)
        rng.shuffle(failing)
        dset = set(directed)
        must = [f for f in failing if f[0] in dset]
        sample = must + [f for f in failing if f[0] not in dset][: (120 if quick else 2500)]
        for i, (s, w, spans) in enumerate(sample):
            path = os.path.join(tmp, "p%d.jsonnet" % (i % 8))
            with open(path, "wb") as f:
                f.write(s.encode("utf-8"))
            mt = rng.choice([None, None, 0, 1, 2, 3, 5, 8])
            for color in ([False, True] if i % 4 == 0 else [False]):
                env = dict(os.environ)
                if color:
                    env.pop("NO_COLOR", None)
                else:
                    env["NO_COLOR"] = "1"
                cmd = [vlib.CLI_BIN, "--max-stack", "60"] + (["--max-trace", str(mt)] if mt is not None else []) + [path]
                p = subprocess.run(cmd, stdout=subprocess.PIPE, stderr=subprocess.PIPE, env=env, timeout=60)
                err = p.stderr.decode("utf-8", "replace")
                plain = re.sub(r"\x1b\[[0-9;]*m", "", err)
                rep.evaluations += 1
                rep.bump("cli-render" + ("-color" if color else ""))
                key = "c16cli:" + s
                rp = {"src": s, "cmd": cmd[1:], "exit": p.returncode, "stderr": plain[:600]}
                if p.returncode != 1:
                    rep.violation(key, "failing program: exit status %s instead of 1" % p.returncode, rp)
                    continue
                if p.stdout:
                    rep.violation(key, "failing program wrote to stdout", rp)
                if "error" not in plain:
                    rep.violation(key, "no error report on stderr", rp)
                    continue
                # std.trace output (with its own locations) may precede the report: look after the last error header
                heads = [m.start() for m in re.finditer(r"^error", plain, re.M)]
                report = plain[heads[-1]:] if heads else plain
                locs = re.findall(r"--> (.*?):(\d+):(\d+)", report)
                if spans and not locs:
                    rep.violation(key, "report names no file:line:col although the error carries a span", rp)
                    continue
                src_b = s.encode("utf-8")
                nlines = src_b.count(b"\n") + 1
                for fn, ln, col in locs:
                    if fn == path and not (1 <= int(ln) <= nlines and int(col) >= 1):
                        rep.violation(key, "reported location %s:%s outside the file" % (ln, col), rp)
                if spans and locs and locs[0][0] == path:
                    # the reported location must be the start of one of the spans the error carries
                    got_line, got_col = int(locs[0][1]), int(locs[0][2])
                    cands = []
                    for sp in spans:
                        c, st, en, ln_, ismain = sp.split(":")
                        if ismain == "1":
                            line, prefix = line_col(src_b, int(st))
                            plain_prefix = all(0x20 <= ch < 0x7F for ch in prefix)
                            cands.append((line, len(prefix) + 1 if plain_prefix else None, len(prefix.decode("utf-8", "replace"))))
                    if cands:
                        ok = False
                        for line, col, nch in cands:
                            if got_line == line and (got_col == col if col is not None else 1 <= got_col <= 8 * nch + 1):
                                ok = True
                        if not ok:
                            rep.violation(key, "reported location %d:%d is not the start of any span of the error %r"
                                          % (got_line, got_col, [(l, c) for l, c, _ in cands][:4]), rp)
        # traces longer than --max-trace, every crop size
        deep = "local f(n) = if n == 0 then error \"bottom\" else 1 + f(n - 1); f(12)"
        path = os.path.join(tmp, "deep.jsonnet")
        open(path, "w").write(deep)
        env = dict(os.environ)
        env["NO_COLOR"] = "1"
        full = subprocess.run([vlib.CLI_BIN, path], stdout=subprocess.PIPE, stderr=subprocess.PIPE, env=env, timeout=60).stderr.decode("utf-8", "replace")
        total = full.count("note: while")
        for mt in range(0, 30):
            p = subprocess.run([vlib.CLI_BIN, "--max-trace", str(mt), path], stdout=subprocess.PIPE, stderr=subprocess.PIPE, env=env, timeout=60)
            err = p.stderr.decode("utf-8", "replace")
            rep.evaluations += 1
            rep.bump("cli-crop")
            shown = err.count("note: while")
            hidden = re.findall(r"\.\.\. (\d+) items hidden \.\.\.", err)
            rp = {"src": deep, "cmd": ["--max-trace", str(mt)], "exit": p.returncode, "stderr": err[:400]}
            if p.returncode != 1 or "bottom" not in err:
                rep.violation("c16crop:%d" % mt, "cropped report failed (exit %s)" % p.returncode, rp)
            elif hidden and shown != mt:
                rep.violation("c16crop:%d" % mt, "--max-trace %d shows %d trace items" % (mt, shown), rp)
            elif mt >= total and err != full:
                rep.violation("c16crop:%d" % mt, "--max-trace %d with a trace of %d items differs from the uncropped report" % (mt, total), rp)
            elif mt < total and (len(hidden) != 1 or int(hidden[0]) != total - mt):
                rep.violation("c16crop:%d" % mt, "--max-trace %d of %d items: hidden note says %r" % (mt, total, hidden), rp)
        # reports with extra trailing notes (manifestation of a stream / multi item): same accounting, never a crash
        for flags, src in ((["-y"], "[function(x) x]"), (["-y"], "[1, {a: error \"boom\"}]"), (["-m", tmp], "{\"f\": function(x) x}"),
                           ([], "{a: [error \"deep\"]}"), (["-S"], "1")):
            ref = subprocess.run([vlib.CLI_BIN] + flags + ["-e", src], stdout=subprocess.PIPE, stderr=subprocess.PIPE, env=env, timeout=60)
            tot = ref.stderr.decode("utf-8", "replace").count("note: ")
            for mt in range(0, tot + 3):
                p = subprocess.run([vlib.CLI_BIN, "--max-trace", str(mt)] + flags + ["-e", src], stdout=subprocess.PIPE, stderr=subprocess.PIPE, env=env, timeout=60)
                err = p.stderr.decode("utf-8", "replace")
                rep.evaluations += 1
                rep.bump("cli-crop-notes")
                rp = {"src": src, "cmd": ["--max-trace", str(mt)] + flags + ["-e"], "exit": p.returncode, "stderr": err[:400]}
                if p.returncode != ref.returncode:
                    rep.violation("c16cropn:%d:%s" % (mt, src), "--max-trace %d: exit status %s instead of %s" % (mt, p.returncode, ref.returncode), rp)
                elif "0 items hidden" in err:
                    rep.violation("c16cropn:%d:%s" % (mt, src), "--max-trace %d: a note says that 0 items are hidden" % mt, rp)
    finally:
        shutil.rmtree(tmp, ignore_errors=True)
    vlib.huge_token_probe(rep, ("diag",))


def replay(r):
    if "src" in r["replay"]:
        vlib.build_harness()
        a = vlib.impl(["diag %s max_stack=60" % vlib.hx(r["replay"]["src"])])[0]
        print("diag :", a)
        return 1 if a.startswith("panic") else 0
    line = r["replay"].get("op") or ("span " + r["replay"]["case"]["key"])
    vlib.build_harness()
    a = vlib.impl([line])[0]
    b = vlib.model([line])[0]
    print("impl :", a)
    print("model:", b)
    bad = oracle(line.split(" ")[1:], a)
    print("oracle:", bad)
    return 1 if bad or a != b else 0
