"""C16 — span identifiers round-trip; diagnostics locate inside the source."""
import vlib

BOUNDS = [0, 1, 2, 7, 2**25 - 2, 2**25 - 1, 2**25, 2**25 + 1, 2**26, 2**38 - 2, 2**38 - 1, 2**38, 2**40]


def gen_script(rng, nops):
    ops = []
    ctx_lens = []
    nids = 0
    for _ in range(nops):
        r = rng.random()
        if not ctx_lens or r < 0.25:
            k = rng.random()
            if k < 0.4:
                n = rng.randrange(0, 50)
            elif k < 0.8:
                n = max(0, rng.choice(BOUNDS) + rng.randrange(-2, 3))
            else:
                n = rng.randrange(0, 2**40)
            ops.append("c:%d" % n)
            ctx_lens.append(n)
        elif r < 0.85:
            c = rng.randrange(len(ctx_lens))
            ln = ctx_lens[c]
            k = rng.random()
            if k < 0.1:
                # deliberately out of range / inverted (assert paths)
                s = rng.randrange(0, ln + 3)
                e = rng.randrange(0, ln + 3)
            else:
                s = min(ln, rng.choice([0, ln, rng.randrange(0, ln + 1), max(0, ln - rng.choice(BOUNDS))]))
                l = rng.choice([0, 1, rng.randrange(0, 100)] + BOUNDS[:10])
                e = min(ln, s + l)
            ops.append("i:%d:%d:%d" % (c, s, e))
            if s <= e <= ln:
                nids += 1
        elif nids >= 1:
            ops.append("s:%d:%d" % (rng.randrange(nids), rng.randrange(nids)))
            nids += 1  # may be skipped/fail; indices are checked by both sides
    return ops


def oracle(ops, out):
    """Direct check on the implementation's answer (independent of the model)."""
    items = out.split(";")
    if len(items) != len(ops):
        return "wrong number of answers"
    ctx_lens = []
    ids = []
    for op, it in zip(ops, items):
        p = op.split(":")
        if it.startswith("panic") or it.startswith("crash"):
            return "driver failure: " + it[:80]
        if p[0] == "c":
            ctx_lens.append(int(p[1]))
            expect_new = None
        elif p[0] == "i":
            c, s, e = int(p[1]), int(p[2]), int(p[3])
            ok = c < len(ctx_lens) and s <= e <= ctx_lens[c]
            if not ok:
                if not it.startswith("P"):
                    return "out-of-range registration %s accepted: %s" % (op, it[:60])
                continue
            if it.startswith("P"):
                return "in-range registration %s rejected: %s" % (op, it)
            ids.append((c, s, e))
            expect_new = True
        elif p[0] == "s":
            a, b = int(p[1]), int(p[2])
            if it == "skip":
                if a < len(ids) and b < len(ids):
                    return "surround skipped wrongly"
                continue
            if a >= len(ids) or b >= len(ids):
                return "surround on unknown id answered"
            (c1, s1, _), (c2, _, e2) = ids[a], ids[b]
            if c1 != c2 or s1 > e2:
                if not it.startswith("P"):
                    return "bad surround accepted"
                continue
            if it.startswith("P"):
                return "valid surround rejected: " + it
            ids.append((c1, s1, e2))
        if it.startswith("P"):
            continue
        inner = it[it.index("[") + 1 : it.rindex("]")]
        got = [tuple(int(x) for x in g.split(":")) if not g.startswith("E") else g for g in inner.split(" ")] if inner else []
        if got != ids:
            return "decoded spans %r != registered %r after %s" % (got[-3:], ids[-3:], op)
    return None


def run(rep):
    rep.rule = ("span-manager scripts (insert context / intern / surrounding span) with lengths around "
                "2^25, 2^38 and up to 2^40; non-trivial = >=2 contexts and >=1 span on each of the inline "
                "and interned paths; distinct by script text")
    rep.assumptions = ["sum of context lengths < 2^63 (u64 arithmetic modelled in Nat)",
                       "interner holds < 2^63 spans",
                       "binary_search_by_key modelled by its documented contract"]
    vlib.prelude(rep)
    n = 400 if rep.tier == "quick" else 20000
    cases = []
    corpus = [
        "c:10 i:0:2:5 c:3 i:1:0:3 s:0:0 i:0:11:11 i:0:4:3",
        "c:274877906943 i:0:274877906940:274877906943 c:5 i:1:1:2 i:0:0:33554431 i:0:0:33554432 s:2:3",
        "c:0 i:0:0:0 c:0 i:1:0:0 c:1 i:2:1:1 i:2:0:1",
        "c:274877906941 c:0 i:1:0:0 c:0 i:2:0:0 c:7 i:3:0:7 i:3:7:7",
    ]
    for sc in corpus:
        cases.append({"key": sc, "ops": sc.split(" ")})
    for _ in range(n):
        ops = gen_script(rep.rng, rep.rng.randrange(3, 25))
        cases.append({"key": " ".join(ops), "ops": ops})
    lines = ["span " + c["key"] for c in cases]
    io = vlib.impl(lines)
    mo = vlib.model(lines)
    for c, a in zip(cases, io):
        nctx = sum(1 for o in c["ops"] if o.startswith("c:"))
        nontriv = nctx >= 2 and "iN" in a and "iI" in a
        rep.count(c["key"], nontriv, sample={"script": c["key"], "impl": a[:300]} if nontriv else None)
        rep.bump("scripts")
        rep.bump("inline_ids", a.count("iN"))
        rep.bump("interned_ids", a.count("iI"))
        rep.bump("assert_paths", a.count("P"))
        bad = oracle(c["ops"], a)
        if bad:
            rep.violation("span:" + c["key"], bad, {"op": "span " + c["key"], "impl": a[:1000]})
    vlib.compare(rep, cases, io, mo, label="span script")


def replay(r):
    line = r["replay"].get("op") or ("span " + r["replay"]["case"]["key"])
    vlib.build_harness()
    a = vlib.impl([line])[0]
    b = vlib.model([line])[0]
    print("impl :", a)
    print("model:", b)
    bad = oracle(line.split(" ")[1:], a)
    print("oracle:", bad)
    return 1 if bad or a != b else 0
