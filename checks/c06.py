"""C06 — numbers are always finite doubles, read and printed exactly.

Direct oracles on the implementation (independent of the Lean model):
  * a number result is a finite double (bit pattern), `[r, r - r]` manifests as `[T, 0]`
    with float(T) == r and no "inf"/"NaN" text; a panic anywhere is a violation;
  * every builtin of `std` (list + arities obtained from the running implementation) called
    with boundary doubles / arrays of them never hands out a non-finite number;
  * a literal evaluates to Python's correctly rounded float(Fraction(text)) (bit pattern),
    or is a NumberOverflow error exactly when that value is not finite;
  * the manifested text T of a double x satisfies float(T) == x and has exactly the
    significant digits of Python's repr(x) (shortest round-trip digits).
Model vs implementation (driver op `num`): outcome class for every producer, bit pattern
for the exactly rounded ones; lex_number, literal value, parseInt/Octal/Hex/Json/Yaml;
`isShortestRT` on the printed text; `roundNE`/`isNearestEven` against Python.
"""
import json
import math
import os
import re
import struct
import sys
from fractions import Fraction

import vlib

INF_BITS = 0x7FF0000000000000


def bits(x):
    return struct.unpack(">Q", struct.pack(">d", x))[0]


def hb(x):
    return "%016x" % bits(x)


def fb(b):
    return struct.unpack(">d", struct.pack(">Q", b))[0]


def is_finite_bits(b):
    return (b & 0x7FFFFFFFFFFFFFFF) < INF_BITS


MAXF = 1.7976931348623157e308
MINN = 2.2250738585072014e-308
BOUNDARY = [
    0.0, -0.0, 5e-324, -5e-324, 1e-323,
    MINN, fb(bits(MINN) - 1), fb(bits(MINN) + 1), -MINN,
    1.0, -1.0, 0.5, -0.5, 2.0, 3.0, 10.0, 0.1, 1.0 / 3.0, 1.5, 2.5, -2.5,
    float(2 ** 53 - 1), float(2 ** 53), float(2 ** 53 + 2), -float(2 ** 53 - 1), -float(2 ** 53),
    float(2 ** 31), float(2 ** 32), float(2 ** 62), float(2 ** 63), float(2 ** 64),
    MAXF, -MAXF, fb(bits(MAXF) - 1), 2.0 ** 1023, 2.0 ** 512, 2.0 ** 511, 1e308, -1e308, 1e154, 1e-308, 1e-200,
    709.782712893384, 709.782712893385, 710.0, -745.2, -746.0, 1024.0, 1023.0, -1074.0, -1075.0,
    math.pi, math.pi / 2, 90.0, 180.0, 62.0, 63.0, 64.0, 65.0, 8.98846567431158e307,
]
BSET = {bits(x) for x in BOUNDARY}

EXACT = {"add", "sub", "mul", "div", "rem", "shl", "shr", "band", "bor", "bxor", "neg", "pos", "bnot",
         "modulo", "mod", "sqrt", "deg2rad", "rad2deg", "floor", "ceil", "mantissa", "exponent",
         "sum", "avg", "abs", "sign", "max", "min", "clamp", "round", "pi"}
# name -> (arity, jsonnet template); arity 99 = array
OPS = {
    "add": (2, "%s + %s"), "sub": (2, "%s - %s"), "mul": (2, "%s * %s"), "div": (2, "%s / %s"),
    "rem": (2, "%s %% %s"), "shl": (2, "%s << %s"), "shr": (2, "%s >> %s"), "band": (2, "%s & %s"),
    "bor": (2, "%s | %s"), "bxor": (2, "%s ^ %s"), "neg": (1, "-%s"), "pos": (1, "+%s"), "bnot": (1, "~%s"),
    "modulo": (2, "std.modulo(%s, %s)"), "mod": (2, "std.mod(%s, %s)"), "pow": (2, "std.pow(%s, %s)"),
    "atan2": (2, "std.atan2(%s, %s)"), "hypot": (2, "std.hypot(%s, %s)"),
    "exp": (1, "std.exp(%s)"), "log": (1, "std.log(%s)"), "log2": (1, "std.log2(%s)"),
    "log10": (1, "std.log10(%s)"), "sqrt": (1, "std.sqrt(%s)"), "sin": (1, "std.sin(%s)"),
    "cos": (1, "std.cos(%s)"), "tan": (1, "std.tan(%s)"), "asin": (1, "std.asin(%s)"),
    "acos": (1, "std.acos(%s)"), "atan": (1, "std.atan(%s)"), "deg2rad": (1, "std.deg2rad(%s)"),
    "rad2deg": (1, "std.rad2deg(%s)"), "floor": (1, "std.floor(%s)"), "ceil": (1, "std.ceil(%s)"),
    "mantissa": (1, "std.mantissa(%s)"), "exponent": (1, "std.exponent(%s)"),
    "abs": (1, "std.abs(%s)"), "sign": (1, "std.sign(%s)"), "max": (2, "std.max(%s, %s)"),
    "min": (2, "std.min(%s, %s)"), "clamp": (3, "std.clamp(%s, %s, %s)"), "round": (1, "std.round(%s)"),
    "sum": (99, "std.sum(%s)"), "avg": (99, "std.avg(%s)"), "pi": (0, "std.pi"),
}
# std members that exist today and are not number producers modelled by name above; every one of
# them is still exercised by the generic oracle.  A member outside both tables is reported.
OTHER_STD = set("""
extVar type isArray isBoolean isFunction isNumber isObject isString isNull length prune objectHasEx
objectFieldsEx objectRemoveKey mapWithKey primitiveEquals equals __compare __compare_array isEven isOdd
isInteger isDecimal assertEqual toString codepoint char substr findSubstr startsWith endsWith stripChars
lstripChars rstripChars split splitLimit splitLimitR strReplace trim equalsIgnoreCase asciiUpper asciiLower
stringChars format escapeStringJson escapeStringPython escapeStringBash escapeStringDollars escapeStringXML
parseInt parseOctal parseHex parseJson parseYaml encodeUTF8 decodeUTF8 manifestIni manifestPython
manifestPythonVars manifestXmlJsonml manifestTomlEx makeArray member count find map mapWithIndex filterMap
flatMap filter foldl foldr range repeat slice join deepJoin flattenArrays flattenDeepArray reverse all any
contains remove removeAt base64 base64DecodeBytes base64Decode md5 sha1 sha256 sha512 sha3 mergePatch
native trace manifestJsonEx manifestYamlDoc manifestYamlStream sort uniq minArray maxArray set setInter
setUnion setDiff setMember thisFile isEmpty manifestToml manifestJson manifestJsonMinified lines get
objectHas objectHasAll objectFields objectFieldsAll objectValues objectValuesAll objectKeysValues
objectKeysValuesAll xor xnor resolvePath __array_less __array_less_or_equal __array_greater
__array_greater_or_equal
""".split())


def jnum(x):
    """Exact Jsonnet text for a finite double (Python repr round-trips)."""
    r = repr(x)
    if r.startswith("-"):
        return "(" + r + ")"
    return r


def rand_double_raw(rng):
    k = rng.random()
    if k < 0.35:
        return fb(rng.getrandbits(64))
    if k < 0.55:
        return float(rng.randrange(-100, 100))
    if k < 0.7:
        return rng.uniform(-10, 10)
    if k < 0.8:
        return float(rng.randrange(-2 ** 54, 2 ** 54))
    if k < 0.9:
        e = rng.choice([-1074, -1030, -1022, -600, -1, 0, 52, 53, 511, 512, 1000, 1023]) - (1 if rng.random() < .3 else 0)
        return math.ldexp(rng.uniform(1, 2), e) * rng.choice([1, -1])
    return rng.choice(BOUNDARY) * rng.choice([1.0, -1.0, 0.5, 2.0, 1.0000000000000002])


def rand_double(rng):
    """a finite double: random bit patterns, small integers, reals, extreme exponents, near-boundary"""
    while True:
        x = rand_double_raw(rng)
        if not (math.isinf(x) or math.isnan(x)):
            return x


def pick(rng, pb):
    if rng.random() < pb:
        return rng.choice(BOUNDARY)
    x = rand_double(rng)
    if math.isinf(x) or math.isnan(x):
        return rng.choice(BOUNDARY)
    return x


def canon_op(name, out):
    """libm functions: compare outcome class only."""
    if name in EXACT:
        return out
    return out.split(" ")[0] if out.startswith("ok ") else out


# ---------------------------------------------------------------- literals

def gen_digits(rng, n, first_nonzero=False):
    s = "".join(rng.choice("0123456789") for _ in range(n))
    if first_nonzero and s and s[0] == "0":
        s = rng.choice("123456789") + s[1:]
    return s


def underscores(rng, s):
    if len(s) < 2 or rng.random() < 0.6:
        return s
    out = [s[0]]
    for ch in s[1:]:
        if rng.random() < 0.25:
            out.append("_")
        out.append(ch)
    return "".join(out)


def gen_literal(rng):
    """A well-formed literal (mostly) with the shapes named in the property."""
    k = rng.random()
    if k < 0.15:
        ip = gen_digits(rng, rng.choice([1, 1, 2, 5, 17, 20, 40, 309, 310, 400]), True)
    elif k < 0.3:
        ip = "0"
    elif k < 0.5:
        # 15..17 significant digits with a small power of ten: where a two-step conversion (integer to double, then
        # scaling) rounds twice
        nd = rng.choice([15, 16, 16, 16, 17])
        ds = (rng.choice(["9", "9", "90", "900", "99"]) + gen_digits(rng, nd))[:nd]
        if rng.random() < 0.7:
            ds = ds[:-1] + rng.choice("13579")
        cut = rng.randrange(0, nd + 1)
        text = (ds[:cut] or "0") + ("." + ds[cut:] if cut < nd else "")
        if rng.random() < 0.6:
            text += rng.choice("eE") + rng.choice(["", "+", "-", "-"]) + str(rng.randrange(0, 26))
        return underscores(rng, text) if rng.random() < 0.1 and "." not in text and "e" not in text.lower() else text
    else:
        ip = gen_digits(rng, rng.randrange(1, 20), True)
    text = underscores(rng, ip)
    nfrac = 0
    if rng.random() < 0.6:
        nfrac = rng.choice([1, 2, 3, 17, 25, 60, 330, 400]) if rng.random() < 0.5 else rng.randrange(1, 20)
        fp = gen_digits(rng, nfrac)
        if rng.random() < 0.2:
            fp = "0" * rng.randrange(1, nfrac + 1) + fp[:max(0, nfrac - 5)]
            nfrac = len(fp)
        if not fp:
            fp, nfrac = "0", 1
        text += "." + underscores(rng, fp)
    if rng.random() < 0.6:
        intlen = len(ip)
        base = rng.choice([0, 1, 5, 22, 23, 290, 300, 307, 308, 309, 310, 323, 324, 325, 340, 400, 1000,
                           308 - intlen + 1, 309 - intlen, 324 + nfrac, 323 + intlen, 10 ** 6])
        e = base + rng.randrange(-2, 3)
        if e < 0:
            e = 0
        sign = rng.choice(["", "+", "-", "-"])
        text += rng.choice("eE") + sign + underscores(rng, str(e))
    return text


CORPUS_LITERALS = [
    "0", "1", "0.0", "0.1", "1e308", "1.7976931348623157e308", "1.7976931348623158e308",
    "1.7976931348623159e308", "1e309", "1.8e308", "5e-324", "4.9e-324", "2.5e-324", "2.4e-324",
    "2.4703282292062328e-324", "2.4703282292062327e-324", "3e-324", "1e-400", "0e999", "0.0e-999",
    "2.2250738585072014e-308", "2.2250738585072011e-308", "2.225073858507201e-308",
    "9007199254740993", "9007199254740992", "9007199254740991", "9007199254740993.0000000001",
    "9007199254740995", "1e23", "8.41e21", "2.2250738585072012e-308", "1_000", "1_0.0_1e1_0",
    "1_.5", "1_e5", "1.5_e3", "1e5_", "1__0", "1._5", "01", "00", "0_1", "1.", "1.e5", "1e", "1e+", "1e-",
    "1e99999999999999999999", "1e-99999999999999999999", "0e99999999999999999999",
    "1e9223372036854775807", "1e9223372036854775808", "1e-9223372036854775808", "0.1e9223372036854775807",
    "0.1e-9223372036854775808", "0.01e-9223372036854775807", "1e18446744073709551615", "1e18446744073709551616",
    # 2^1024 - 2^970 exactly (the tie between MAX and "2^1024"): rounds to even = overflow
    str(2 ** 1024 - 2 ** 970), str(2 ** 1024 - 2 ** 970 - 1), str(2 ** 1024 - 2 ** 970) + ".0000000001",
    str(2 ** 1024 - 2 ** 970 - 1) + ".9999999999999",
    # half of the smallest subnormal (tie -> 0) and just above
    "0." + "0" * 323 + "24703282292062327208051355972539025",
    "24703282292062327208051355972538987e-358",
]


def py_literal_value(text):
    """('ok', bits) | ('overflow',) | ('lexerr',) from an independent reading of the text."""
    t = text
    if not re.fullmatch(r"[0-9](_?[0-9])*(\.[0-9](_?[0-9])*)?([eE][+-]?[0-9](_?[0-9])*)?", t):
        return ("lexerr",)
    if re.match(r"0_?[0-9]", t):
        return ("lexerr",)
    t = t.replace("_", "")
    m = re.fullmatch(r"([0-9]+)(?:\.([0-9]+))?(?:[eE]([+-]?[0-9]+))?", t)
    ip, fp, ex = m.group(1), m.group(2) or "", int(m.group(3) or "0")
    if abs(ex) > 2 ** 63 - 1:
        return ("lexerr",)
    eff = ex - len(fp)
    if eff < -2 ** 63 or eff > 2 ** 63 - 1:
        return ("lexerr",)
    n = int(ip + fp)
    if n == 0:
        return ("ok", 0)
    nd = len(str(n))
    if eff + nd > 400:
        return ("overflow",)
    if eff + nd < -400:
        return ("ok", 0)
    q = Fraction(n) * (Fraction(10) ** eff)
    try:
        v = q.numerator / q.denominator
    except OverflowError:
        return ("overflow",)
    if math.isinf(v):
        return ("overflow",)
    return ("ok", bits(v))


def sig_digits(text):
    """significant decimal digits of a plain / scientific decimal text"""
    t = text.lstrip("+-")
    m = re.fullmatch(r"([0-9]*)\.?([0-9]*)(?:[eE][+-]?[0-9]+)?", t)
    d = (m.group(1) + m.group(2)).lstrip("0").rstrip("0")
    return d


def panic_key(out):
    """canonical key of a panic: its source location + message (independent of the input)"""
    w = out.split(" ")
    msg = vlib.unhx(w[1]).decode("utf-8", "replace") if len(w) > 1 and w[0] == "panic" else out
    m = re.search(r"src/([^\s:]+:[0-9]+)", msg)
    tail = msg.strip().split("\n")[-1][:60]
    return "panic:%s:%s" % (m.group(1) if m else "?", tail)


def run_extractor(rep):
    sys.path.insert(0, os.path.join(vlib.VERIF, "tools"))
    try:
        import extract_number_sites as ex
    except Exception as e:  # noqa
        rep.broken_tie("tools/extract_number_sites.py cannot be imported", repr(e))
        return
    try:
        sites, unmapped, stale = ex.main_write()
    except ex.ExtractError as e:
        rep.broken_tie("extract_number_sites: cannot list the number construction sites of /repo", str(e))
        return
    except Exception as e:  # noqa
        rep.broken_tie("extract_number_sites crashed", repr(e))
        return
    rep.extra["number_sites"] = len(sites)
    rep.extra["number_sites_gated"] = sum(1 for s in sites if s["gated"])
    if unmapped:
        rep.broken_tie("number construction site(s) of /repo not mapped to a model producer "
                       "(tools/number_sites.toml): " + "; ".join(unmapped[:5]),
                       "C06_every_site_modelled cannot hold: " + repr(unmapped))
    if stale:
        rep.broken_tie("tools/number_sites.toml maps site(s) that no longer exist in /repo: " + "; ".join(stale[:5]),
                       repr(stale))


def std_members(rep):
    src = ("{[k]: if std.isFunction(std[k]) then std.length(std[k]) else std.type(std[k]) "
           "for k in std.objectFieldsAll(std)}")
    out = vlib.parse_eval(vlib.impl([vlib.eval_line(src)])[0])
    if out[0] != "ok":
        rep.broken_tie("cannot list the members of std from the implementation", repr(out)[:500])
        return {}
    return json.loads(out[1])


def run(rep):
    rng = rep.rng
    thorough = rep.tier != "quick"
    rep.rule = ("producer grid: every operator / numeric builtin (names checked against the members of std "
                "reported by the implementation) on boundary doubles (+-0, 5e-324, subnormal edge, 2^53+-1, "
                "+-MAX, 2^512, exp/pow thresholds) and random doubles, pairs, triples and arrays; literal shapes "
                "(underscores, up to 400 digits, exponents around +-308/+-324 and beyond i64); printed doubles. "
                "non-trivial = at least one operand is a boundary value or the outcome is an error (producers), "
                "the literal has >17 digits / an underscore / |exp|>=290 / is an error (literals), every printed "
                "double; distinct by request line")
    rep.assumptions = [
        "IEEE binary64 arithmetic satisfies the laws `Lawful` (neg/floor/ceil/frexp of a finite value are finite, "
        "integers of 64-bit types convert to finite doubles, finite/len stays finite): trusted, exercised by the grid",
        "Rust's str::parse::<f64> is correctly rounded (isNearestEven) and Display for f64 prints the shortest "
        "round-trip digits (isShortestRT): VALIDATED by this check (against the model's roundNE, which is proved to be "
        "the unique nearest-even rounding, and independently against Python's Fraction->float and repr), not proved",
        "roundDec's shortcuts for decimal exponents beyond +-400 (overflow / zero without building the power of ten) "
        "are proved (C06_huge_overflows, C06_tiny_rounds_to_zero, C06_roundDec_correct) and also validated against Python",
        "libm functions (pow exp log sin ...) are compared by outcome class only (finite / NumberOverflow / NumberNan)",
        "numbers injected by the embedding host (Value::number, native functions) are outside the property",
        "a literal whose explicit exponent does not fit i64 is rejected by the lexer (ExpOverflow) whatever its value",
        "usize/isize are 64 bit; texts shorter than 2^63 characters",
    ]
    run_extractor(rep)
    vlib.prelude(rep)
    n_scale = 1 if not thorough else 50

    lines = []   # (line, meta)

    def add(line, **meta):
        meta["line"] = line
        lines.append(meta)

    # ---------------- 0. members of std: a new builtin must be noticed
    members = std_members(rep)
    modelled = set(OPS) - {"add", "sub", "mul", "div", "rem", "shl", "shr", "band", "bor", "bxor", "neg", "pos", "bnot"}
    for k in sorted(members):
        if k not in modelled and k not in OTHER_STD:
            rep.broken_tie("std.%s exists in the implementation but is unknown to checks/c06.py / the model "
                           "(new builtin: classify it, add a producer if it yields numbers)" % k, k)
    for k in sorted(modelled | OTHER_STD):
        if k not in members:
            rep.broken_tie("std.%s is expected by checks/c06.py but missing in the implementation" % k, k)

    # ---------------- 1. producer grid
    opcases = []
    for name, (ar, tmpl) in sorted(OPS.items()):
        reps = (26 if ar in (1, 2) else 18) * n_scale
        if ar == 0:
            opcases.append((name, []))
            continue
        if ar == 1:
            for x in BOUNDARY:
                opcases.append((name, [x]))
        if ar == 2:
            # boundary x boundary sample
            for _ in range(reps * 2):
                opcases.append((name, [rng.choice(BOUNDARY), rng.choice(BOUNDARY)]))
        for _ in range(reps):
            if ar == 99:
                ln = rng.choice([0, 1, 2, 2, 3, 3, 4, 6, 9])
                xs = [pick(rng, 0.6) for _ in range(ln)]
                if rng.random() < 0.3 and ln >= 2:
                    xs = [rng.choice([MAXF, 1e308, 2.0 ** 1023]), rng.choice([MAXF, 1e308, 2.0 ** 1023]),
                          rng.choice([-MAXF, -1e308])] + xs[:ln - 2]
                opcases.append((name, xs))
            else:
                opcases.append((name, [pick(rng, 0.45) for _ in range(ar)]))
    corpus_ops = [
        ("sum", [1e308, 1e308]), ("sum", [1e308, 1e308, -1e308]), ("avg", [1e308, 1e308]),
        ("avg", [MAXF, MAXF, -MAXF, -MAXF]), ("sum", [MAXF, -MAXF, MAXF]), ("avg", []), ("sum", []),
        ("add", [MAXF, fb(bits(MAXF) - 0x20000000000000)]), ("add", [MAXF, 9.9792015476736e291]),
        ("add", [MAXF, 9.979201547673598e291]), ("mul", [2.0 ** 512, 2.0 ** 512]), ("mul", [2.0 ** 511, 2.0 ** 512]),
        ("mul", [5e-324, 0.5]), ("div", [1.0, 5e-324]), ("div", [5e-324, 2.0]), ("div", [0.0, 0.0]), ("div", [1.0, -0.0]),
        ("rem", [5.0, 0.0]), ("rem", [-5.0, 3.0]), ("rem", [MAXF, 5e-324]), ("rem", [5e-324, MAXF]), ("rem", [-0.0, 1.0]),
        ("pow", [2.0, 1024.0]), ("pow", [2.0, 1023.0]), ("pow", [-8.0, 1.0 / 3.0]), ("pow", [0.0, -1.0]), ("pow", [0.0, 0.0]),
        ("pow", [-0.0, -3.0]), ("pow", [10.0, 308.0]), ("pow", [10.0, 309.0]), ("pow", [2.0, -1075.0]),
        ("exp", [709.782712893384]), ("exp", [709.782712893385]), ("exp", [-746.0]), ("log", [0.0]), ("log", [-0.0]),
        ("log", [-1.0]), ("log2", [0.0]), ("log10", [0.0]), ("log", [5e-324]), ("sqrt", [-0.0]), ("sqrt", [-5e-324]),
        ("asin", [1.0000000000000002]), ("acos", [-1.0000000000000002]), ("atan2", [0.0, 0.0]), ("atan2", [-0.0, -0.0]),
        ("hypot", [MAXF, MAXF]), ("hypot", [MAXF, 0.0]), ("hypot", [1e308, 1e308]), ("hypot", [2.0 ** 1023, 2.0 ** 1023]),
        ("hypot", [1.2e308, 1.2e308]), ("hypot", [1.3e308, 1.3e308]),
        ("tan", [math.pi / 2]), ("rad2deg", [MAXF]), ("rad2deg", [3.2e306]), ("rad2deg", [3.1e306]), ("deg2rad", [MAXF]),
        ("floor", [-0.5]), ("ceil", [-0.5]), ("floor", [MAXF]), ("ceil", [-MAXF]), ("floor", [5e-324]), ("ceil", [-5e-324]),
        ("round", [MAXF]), ("round", [0.49999999999999994]), ("round", [-0.5]), ("round", [4503599627370497.0]),
        ("mantissa", [MAXF]), ("exponent", [MAXF]), ("mantissa", [-0.0]), ("exponent", [0.0]), ("mantissa", [MINN]),
        ("exponent", [fb(bits(MINN) - 1)]),
        ("shl", [1.0, 62.0]), ("shl", [1.0, 63.0]), ("shl", [1.0, 64.0]), ("shl", [1.0, -0.0]), ("shl", [-1.0, 63.0]),
        ("shl", [float(2 ** 53 - 1), 10.0]), ("shl", [float(2 ** 53 - 1), 11.0]), ("shl", [float(2 ** 53), 0.0]),
        ("shl", [3.0, 1.5]), ("shl", [1.0, 5e-324]), ("shr", [-1.0, 63.0]), ("shr", [-5.0, 1.0]), ("shr", [1.0, -1.0]),
        ("shr", [float(2 ** 53 - 1), 65.0]), ("band", [-1.0, float(2 ** 53 - 1)]), ("bor", [-float(2 ** 53 - 1), 1.0]),
        ("bxor", [-1.0, -float(2 ** 53 - 1)]), ("band", [float(2 ** 53), 1.0]), ("band", [1.5, 3.7]), ("bnot", [-0.5]),
        ("bnot", [float(2 ** 53 - 1)]), ("bnot", [-float(2 ** 53 - 1)]), ("bnot", [float(2 ** 53)]), ("bnot", [0.0]), ("bnot", [-0.0]),
        ("abs", [0.0]), ("abs", [-0.0]), ("abs", [-MAXF]), ("sign", [-0.0]), ("sign", [-5e-324]),
        ("max", [0.0, -0.0]), ("min", [-0.0, 0.0]), ("clamp", [5.0, 1.0, 3.0]), ("clamp", [-5.0, 1.0, 3.0]), ("clamp", [2.0, 3.0, 1.0]),
        ("neg", [0.0]), ("neg", [MAXF]), ("pos", [-0.0]),
    ]
    opcases = corpus_ops + opcases
    seen = set()
    for name, xs in opcases:
        line = "num op " + " ".join([name] + [hb(x) for x in xs])
        if line in seen:
            continue
        seen.add(line)
        add(line, kind="op", name=name, xs=xs)

    # integer-valued conversion sites
    for i in [0, 1, 65, 127, 255, 0xD7FF, 0xE000, 0xFFFF, 0x10000, 0x10FFFF, 0x110000, 2 ** 31 - 1, -1, -2 ** 31,
              -2 ** 31 + 1, 2 ** 24 + 1, 1234567] + [rng.randrange(-2 ** 31, 2 ** 31) for _ in range(20 * n_scale)]:
        add("num conv %d" % i, kind="conv", i=i)

    # ---------------- 2. literals
    lits = list(CORPUS_LITERALS)
    for _ in range(450 * n_scale):
        lits.append(gen_literal(rng))
    # malformed stream
    for _ in range(60 * n_scale):
        t = gen_literal(rng)
        k = rng.random()
        pos = rng.randrange(0, len(t) + 1)
        if k < 0.4:
            t = t[:pos] + rng.choice(["_", "__", ".", "e", "E", "+", "-"]) + t[pos:]
        elif k < 0.7:
            t = "0" + t
        else:
            t = t[:pos]
        if t and t[0].isdigit():
            lits.append(t)
    lseen = set()
    curated = set(CORPUS_LITERALS)
    for t in lits:
        if t in lseen:
            continue
        lseen.add(t)
        # as a whole program only texts that are one literal (or a curated malformed one):
        # a generated malformed text may be a valid expression such as `0E+29+9`
        if t in curated or py_literal_value(t)[0] != "lexerr":
            add("num lit " + vlib.hx(t), kind="lit", text=t)
            add("num litvalue " + vlib.hx(t), kind="litvalue", text=t)
        tail = rng.choice(["", "", " ", "+x", "x", ".e", "_", ")", " 01"])
        add("num lex " + vlib.hx(t + tail), kind="lex", text=t + tail)

    # ---------------- 3. text -> number builtins
    for _ in range(150 * n_scale):
        t = gen_literal(rng).replace("_", "")
        if re.match(r"0[0-9]", t):
            t = t.lstrip("0") or "0"
            if not t[0].isdigit():
                t = "0" + t
        if py_literal_value(t)[0] == "lexerr":
            continue
        sgn = rng.choice(["", "-"])
        add("num dec " + vlib.hx(sgn + t), kind="dec", text=sgn + t)
        ysgn = rng.choice(["", "-", "+"])
        yt = t
        if rng.random() < 0.15 and "." in yt:
            yt = yt[yt.index("."):] if re.match(r"0\.", yt) else yt
        add("num yaml " + vlib.hx(ysgn + yt), kind="yaml", text=ysgn + yt)
    for t in ["1.", "-1.", ".5", "-.5", "+.5e3", "1.e3", "0x1F", "0o17", "0xff", "0x" + "f" * 300, "0o" + "7" * 400, "0x", "0o8",
              "1e999", "-1e999", "1e-999", "0x1p3", "1_0", "0b1", "00012", "-0", "+0", "1e", ".", "-", "0x-1", "1.5.2", "nan", "inf", ".inf", "-.inf", ".nan"]:
        add("num yaml " + vlib.hx(t), kind="yaml", text=t)
    for _ in range(120 * n_scale):
        nd = rng.choice([1, 2, 5, 15, 16, 17, 18, 19, 20, 25, 40, 100, 308, 309, 310, 400])
        t = gen_digits(rng, nd)
        if rng.random() < 0.5:
            t = t.lstrip("0") or "0"
        sgn = rng.choice(["", "-"])
        add("num parseint " + vlib.hx(sgn + t), kind="parseint", text=sgn + t)
    for t in ["", "-", "1a", "+1", " 1", "1.0", "1e5", str(2 ** 1024 - 2 ** 970), str(2 ** 1024 - 2 ** 970 - 1), "-" + str(2 ** 1024),
              "9007199254740993", "-9007199254740993", "-0", "00000"]:
        add("num parseint " + vlib.hx(t), kind="parseint", text=t)
    for _ in range(150 * n_scale):
        radix = rng.choice([8, 16])
        alpha = "01234567" if radix == 8 else "0123456789abcdefABCDEF"
        nd = rng.choice([1, 2, 13, 14, 16, 17, 18, 31, 32, 33, 34, 42, 43, 44, 50, 100, 255, 256, 257, 341, 342, 343, 400])
        t = "".join(rng.choice(alpha) for _ in range(nd))
        if rng.random() < 0.3:
            # a long run of zeros then a sticky digit
            t = rng.choice("1234567") + "0" * nd + rng.choice(["", "1", "0"])
        if rng.random() < 0.2:
            t = "0" * rng.randrange(1, 5) + t
        if rng.random() < 0.05:
            t = t + rng.choice(["g", "8", "-", " ", "é"])
        add("num radix %d %s" % (radix, vlib.hx(t)), kind="radix", radix=radix, text=t)
    for radix, t in [(16, "800000000000040000000000000000001"), (16, "80000000000004000000000000000000"), (16, ""),
                     (8, ""), (16, "f" * 256), (16, "f" * 255), (16, "1" + "0" * 256), (16, "1" + "0" * 255),
                     (8, "1" + "0" * 341), (8, "2" + "0" * 341), (8, "7" * 341), (16, "0"), (8, "0000")]:
        add("num radix %d %s" % (radix, vlib.hx(t)), kind="radix", radix=radix, text=t)

    # ---------------- run part A
    req = [c["line"] for c in lines]
    io = vlib.impl(req)
    mo = vlib.model(req)

    evals = []  # follow-up generic eval lines (impl only)

    for c, a, m in zip(lines, io, mo):
        kind = c["kind"]
        rep.bump(kind)
        key = c["line"]
        if a.startswith("panic") or a.startswith("crash"):
            rep.violation(panic_key(a), "implementation panicked: " + a[:200], {"op": c["line"], "impl": a[:500]})
            continue
        if a == "bad-op" or m == "bad-op" or m.startswith("crash"):
            rep.disagreement(key, "driver rejected the request", {"case": c, "impl": a[:300], "model": m[:300]})
            continue
        if kind != "lex" and re.fullmatch(r"ok [0-9a-f]{16}", a):
            rb = int(a[3:], 16)
            if not is_finite_bits(rb):
                rep.violation("nonfinite:" + key, "a non-finite number was produced: bits %016x" % rb,
                              {"op": c["line"], "impl": a})
        if kind == "op":
            name, xs = c["name"], c["xs"]
            nontriv = any(bits(x) in BSET for x in xs) or a.startswith("err") or not xs
            rep.count(key, nontriv, sample={"op": name, "args": [repr(x) for x in xs], "impl": a} if nontriv and rng.random() < 0.01 else None)
            rep.bump("outcome:" + a.split(" ")[0] + (":" + a.split(" ")[1] if a.startswith("err") else ""))
            if canon_op(name, a) != canon_op(name, m):
                rep.disagreement(key, "producer %s: implementation and model differ" % name,
                                 {"case": {"key": key, "args": [repr(x) for x in xs]}, "impl": a, "model": m})
            # the same computation from literal source, manifested: [r, r - r]
            ar, tmpl = OPS[name]
            if ar == 99:
                expr = tmpl % ("[" + ", ".join(jnum(x) for x in xs) + "]")
            else:
                expr = tmpl % tuple(jnum(x) for x in xs)
            evals.append({"src": "local r = %s; [r, r - r]" % expr, "expect": a, "name": name, "key": key})
        elif kind == "conv":
            i = c["i"]
            if not (-2 ** 31 <= i < 2 ** 31) and not (0 <= i <= 0x10FFFF):
                continue
            rep.count(key, True)
            want = "ok " + hb(float(i))
            if 0xD800 <= i <= 0xDFFF:
                continue
            if a != want:
                rep.violation("conv:" + key, "integer conversion of %d gave %s" % (i, a), {"op": c["line"], "impl": a})
            if a != m:
                rep.disagreement(key, "conversion: implementation and model differ", {"case": c, "impl": a, "model": m})
        elif kind in ("lit", "litvalue"):
            t = c["text"]
            exp = py_literal_value(t)
            nontriv = len(re.sub(r"[^0-9]", "", t.split("e")[0].split("E")[0])) > 17 or "_" in t or exp[0] != "ok" or \
                bool(re.search(r"[eE][+-]?_?[0-9_]{3,}", t))
            rep.count(key, nontriv, sample={"literal": t[:80], "impl": a} if nontriv and rng.random() < 0.01 else None)
            if kind == "lit":
                rep.bump("literal:" + exp[0])
                # direct oracle
                if exp[0] == "ok":
                    # `-0`? a literal is never negative; 0 is +0
                    if a != "ok %016x" % exp[1]:
                        rep.violation("literal:" + t, "literal %s evaluates to %s, the correctly rounded double is %016x"
                                      % (t[:60], a, exp[1]), {"op": c["line"], "literal": t, "impl": a, "expected": "%016x" % exp[1]})
                elif exp[0] == "overflow":
                    if a != "err NumberOverflow":
                        rep.violation("literal:" + t, "literal %s whose value rounds to infinity gave %s" % (t[:60], a),
                                      {"op": c["line"], "literal": t, "impl": a})
                else:
                    if not a.startswith("err lex"):
                        rep.violation("literal:" + t, "malformed literal %s accepted: %s" % (t[:60], a),
                                      {"op": c["line"], "literal": t, "impl": a})
                if a != m:
                    rep.disagreement(key, "literal: implementation and model differ", {"case": c, "impl": a, "model": m})
            else:
                # the specification `literalValue` (no state machine) only speaks about well-formed literals
                if exp[0] in ("ok", "overflow") and a != m:
                    rep.disagreement(key, "literalValue specification and implementation differ", {"case": c, "impl": a, "model": m})
        elif kind == "lex":
            rep.count(key, True)
            if a != m:
                rep.disagreement(key, "lex_number: implementation and model differ", {"case": c, "impl": a, "model": m})
        elif kind in ("dec", "yaml", "parseint", "radix"):
            t = c["text"]
            rep.count(key, True)
            exp = None
            if kind == "dec" or (kind == "yaml" and re.fullmatch(r"[+-]?([0-9]+\.?[0-9]*|\.[0-9]+)([eE][+-]?[0-9]+)?", t)):
                tt = t.lstrip("+-")
                if tt.startswith("."):
                    tt = "0" + tt
                tt = re.sub(r"\.(?![0-9])", "", tt)
                exp = py_literal_value(tt) if re.match(r"[0-9]", tt) else None
                if exp and exp[0] == "lexerr":
                    # leading zeros are fine for YAML / Rust parse
                    tt2 = tt.lstrip("0")
                    tt2 = tt2 if re.match(r"[0-9]", tt2) else "0" + tt2
                    exp = py_literal_value(tt2)
                neg = t.startswith("-")
            elif kind == "parseint" and re.fullmatch(r"-?[0-9]+", t):
                neg = t.startswith("-")
                try:
                    exp = ("ok", bits(float(int(t.lstrip("-")))))
                except OverflowError:
                    exp = ("overflow",)
            elif kind == "radix" and t and re.fullmatch(r"[0-7]+" if c["radix"] == 8 else r"[0-9a-fA-F]+", t):
                neg = False
                try:
                    exp = ("ok", bits(float(int(t, c["radix"]))))
                except OverflowError:
                    exp = ("overflow",)
            if exp is not None and exp[0] == "ok":
                want = "ok %016x" % (exp[1] | (0x8000000000000000 if neg else 0))
                if a != want:
                    rep.violation("%s:%s" % (kind, t), "%s(%s) = %s, correctly rounded: %s" % (kind, t[:60], a, want),
                                  {"op": c["line"], "text": t, "impl": a, "expected": want})
            elif exp is not None and exp[0] == "overflow":
                if a != "err NumberOverflow" and not (kind == "yaml" and False):
                    rep.violation("%s:%s" % (kind, t), "%s(%s) overflows but gave %s" % (kind, t[:60], a),
                                  {"op": c["line"], "text": t, "impl": a})
            if a != m:
                rep.disagreement(key, "%s: implementation and model differ" % kind, {"case": c, "impl": a, "model": m})

    # ---------------- 3b. literals in delayed positions (bound lazily instead of evaluated in place)
    WRAP = ["local x = %s; x", "[%s][0]", "{a: %s}.a", "(function(x) x)(%s)", "local f(x, y = %s) = y; f(0)",
            "{a:: %s, b: self.a}.b", "[%s for i in [1]][0]", "{local v = %s, a: v}.a", "std.max(%s, 0)", "local x = [%s]; x[0]",
            "(function(x) x)(x = %s)", "{[k]: %s for k in ['a']}.a", "({a: 0} + {a: %s}).a", "if true then %s else 0", "[0, %s][1]"]
    over = [t for t in lseen if py_literal_value(t)[0] == "overflow"]
    okl = [t for t in lseen if py_literal_value(t)[0] == "ok"]
    rng.shuffle(over)
    rng.shuffle(okl)
    lazy = []
    for t in over[: 40 * n_scale] + okl[: 40 * n_scale] + ["1e400", "0.1e+310", "1" + "0" * 309, "1.7976931348623159e308"]:
        for w in (WRAP if t in ("1e400", "1.7976931348623159e308") else rng.sample(WRAP, 3)):
            lazy.append((t, w % t))
    lo = vlib.impl(["num lit " + vlib.hx(src) for _, src in lazy])
    for (t, src), a in zip(lazy, lo):
        rep.bump("literal-delayed")
        exp = py_literal_value(t)
        rep.count("lazy:" + src, True)
        want = "ok %016x" % exp[1] if exp[0] == "ok" else "err NumberOverflow"
        if a.startswith("panic") or a.startswith("crash"):
            rep.violation(panic_key(a), "implementation panicked: " + a[:200], {"op": "num lit " + vlib.hx(src), "impl": a[:500]})
        elif a != want:
            rep.violation("literal-delayed:" + src, "literal %s in a delayed position (%s) gave %s, expected %s" % (t[:40], src[:60], a, want),
                          {"op": "num lit " + vlib.hx(src), "literal": t, "src": src, "impl": a, "expected": want})

    # ---------------- 4. the same producers from literal source, manifested
    ev_lines = [vlib.eval_line(e["src"], mode="json") for e in evals]
    ev_out = vlib.impl(ev_lines)
    for e, line, out in zip(evals, ev_lines, ev_out):
        rep.bump("manifested")
        r = vlib.parse_eval(out)
        exp = e["expect"]
        rpl = {"op": line, "src": e["src"], "impl": out[:400]}
        if r[0] in ("panic", "crash"):
            rep.violation(panic_key(out), "implementation panicked on %s" % e["src"][:100], rpl)
            continue
        if r[0] == "err":
            if not exp.startswith("err") or exp.split(" ")[1] != r[2]:
                rep.violation("literal-path:" + e["key"], "%s from literal source gave error %s, from exact operands %s"
                              % (e["src"][:80], r[2], exp), rpl)
            continue
        txt = r[1]
        if re.search(r"inf|nan", txt, re.I):
            rep.violation("nonfinite-text:" + e["key"], "manifested text contains a non-finite number: %s" % txt[:80], rpl)
            continue
        try:
            arr = json.loads(txt, parse_float=str, parse_int=str)
            t0, t1 = arr
            v0 = float(t0)
        except Exception:  # noqa
            rep.violation("badtext:" + e["key"], "manifested numbers are not JSON: %s" % txt[:80], rpl)
            continue
        if t1 != "0" or math.isinf(v0) or math.isnan(v0):
            rep.violation("r-r:" + e["key"], "r - r is not 0 / r not finite: %s" % txt[:80], rpl)
            continue
        if exp.startswith("ok ") and e["name"] in EXACT:
            if bits(v0) != int(exp[3:], 16):
                rep.violation("print-parse:" + e["key"],
                              "%s: literal source + printing gives %s (%016x), exact operands give %s"
                              % (e["src"][:80], t0, bits(v0), exp), rpl)
        elif exp.startswith("err"):
            rep.violation("literal-path:" + e["key"], "%s from literal source is ok, from exact operands %s" % (e["src"][:80], exp), rpl)

    # ---------------- 5. printing
    pr = []
    for x in BOUNDARY + [1e23, 1e22, 9.999999999999999e22, 8.41e21, 2.0 ** 70, 5e-324 * 3, 123456789012345680.0, 0.3, 2.0 / 3,
                         1e21, 1e-7, 123456.789e3, 4.35, 0.1 + 0.2, 2.0 ** -1074 * (2 ** 52 - 1), 1e300, 1.0000000000000002]:
        pr.append(x)
    for _ in range(700 * n_scale):
        pr.append(rand_double(rng))
    pr = [x for x in pr if not (math.isinf(x) or math.isnan(x))]
    show_lines = ["num show " + hb(x) for x in pr]
    show_out = vlib.impl(show_lines)
    sh_cases = []
    for x, line, out in zip(pr, show_lines, show_out):
        rep.bump("printed")
        rep.count(line, True, sample={"double": repr(x), "printed": out[:60]} if rng.random() < 0.003 else None)
        if not out.startswith("ok "):
            rep.violation("print:" + line, "printing %r failed: %s" % (x, out[:100]), {"op": line, "impl": out[:300]})
            continue
        t = vlib.unhx(out[3:]).decode()
        rpl = {"op": line, "double": repr(x), "impl_text": t[:400]}
        if not re.fullmatch(r"-?[0-9]+(\.[0-9]+)?", t):
            rep.violation("print:" + line, "printed number %r has unexpected shape %s" % (x, t[:60]), rpl)
            continue
        try:
            back = float(t)   # CPython's float() is correctly rounded for any length
        except Exception:  # noqa
            back = None
        if back is None or bits(back) != bits(x):
            rep.violation("print-rt:" + line, "printed text of %r does not read back as the same double: %s" % (x, t[:60]), rpl)
            continue
        # shortest: as many significant digits as Python's repr (David Gay's shortest round-trip
        # digits) and at least as close to x (on an exact tie both neighbours are admissible)
        if len(sig_digits(t)) != len(sig_digits(repr(x))) or \
                abs(Fraction(t) - Fraction(x)) > abs(Fraction(repr(x)) - Fraction(x)):
            rep.violation("print-shortest:" + line, "printed text of %r is not the shortest round-trip decimal: %s vs %s"
                          % (x, t[:40], repr(x)), rpl)
        sh_cases.append({"key": line, "line": "num shortest %s %s" % (hb(x), vlib.hx(t))})
    # ---------------- 5b. every writer of numbers (manifest formats, string conversion, formatting)
    WRITERS = ['std.manifestJsonEx({a: %s}, "")', 'std.manifestJsonMinified([%s])', 'std.manifestYamlDoc({a: %s})',
               'std.manifestTomlEx({a: %s}, "")', 'std.manifestToml({t: {a: %s}})', 'std.manifestPython({a: %s})',
               'std.manifestIni({main: {a: %s}, sections: {}})', 'std.toString(%s)', '"" + %s', '"%%s" %% [%s]', 'std.manifestXmlJsonml(["t", {a: %s}])',
               'std.manifestYamlStream([%s])', 'std.manifestPythonVars({a: %s})', 'std.manifestTomlEx({a: [%s]}, " ")', 'std.toString([%s])',
               'std.toString({a: %s})']
    wvals = [x for x in BOUNDARY if abs(x) >= 1e-300 or x == 0.0] + [1e19, -1e19, 2.0 ** 63, -(2.0 ** 63), 2.0 ** 64, 1e25, -1e25, 1e300,
                                                                   float(2 ** 62), 9.223372036854776e18, 1.8446744073709552e19, 1e21, 123456789012345680000.0]
    for _ in range(40 * n_scale):
        wvals.append(rand_double(rng))
    wvals = [x for x in wvals if not (math.isinf(x) or math.isnan(x))]
    wjobs = []
    for x in wvals:
        for w in (WRITERS if bits(x) in BSET or abs(x) >= 2.0 ** 62 else rng.sample(WRITERS, 3)):
            wjobs.append((x, w % repr(x)))
    wouts = vlib.impl([vlib.eval_line(src) for _, src in wjobs])
    for (x, src), a in zip(wjobs, wouts):
        rep.bump("written")
        rep.count("write:" + src, abs(x) >= 2.0 ** 53 or x != int(x))
        if a.startswith("panic") or a.startswith("crash"):
            rep.violation(panic_key(a), "implementation panicked: " + a[:200], {"src": src, "impl": a[:500]})
            continue
        if not a.startswith("ok "):
            rep.violation("write:" + src, "writing %r failed: %s" % (x, a[:100]), {"src": src, "impl": a[:300]})
            continue
        try:
            text = json.loads(vlib.unhx(a.split(" ")[1]).decode("utf-8"))
        except Exception:  # noqa
            text = None
        toks = re.findall(r"-?[0-9][0-9.]*(?:[eE][+-]?[0-9]+)?", text) if isinstance(text, str) else []
        if not toks:
            rep.violation("write:" + src, "no number found in the text written for %r: %r" % (x, text), {"src": src, "impl": a[:300]})
            continue
        back = float(toks[-1])
        if bits(back) != bits(x) and not (x == 0.0 and back == 0.0):
            rep.violation("write-rt:" + src, "%s writes %r as %s, which reads back as a different double (%r)" % (src[:40], x, toks[-1][:40], back),
                          {"src": src, "double": repr(x), "text": text[:200]})

    # ---------------- 5c. sums through the `+:` field sugar are checked like any other sum
    PLUS = ['(%s) + (%s)', '({a: %s} + {a+: %s}).a', 'local o = {a: %s}; (o {a+: %s}).a', 'std.foldl(function(o, m) o + m, [{a+: %s}], {a: %s}).a',
            '({a: %s} + {a+: %s} + {a+: 0}).a', '({a: %s} + {b: 1} + {a+: %s}).a', '{a: %s, b: self.a + (%s)}.b']
    pj = []
    big = [MAXF, -MAXF, 1e308, -1e308, 2.0 ** 1023, 8.98846567431158e307, 1.0, 0.0, 1e292, -1e292]
    for x in big:
        for y in big:
            for w in (PLUS if not math.isfinite(x + y) else rng.sample(PLUS, 2)):
                xs, ys = (repr(x), repr(y)) if 'foldl' not in w else (repr(y), repr(x))
                pj.append((x, y, w % (xs, ys)))
    pouts = vlib.impl(["num lit " + vlib.hx(src) for _, _, src in pj])
    for (x, y, src), a in zip(pj, pouts):
        rep.bump("plus-sugar")
        rep.count("plus:" + src, not math.isfinite(x + y))
        want = "ok %016x" % bits(x + y) if math.isfinite(x + y) else "err NumberOverflow"
        if a.startswith("panic") or a.startswith("crash"):
            rep.violation(panic_key(a), "implementation panicked: " + a[:200], {"op": "num lit " + vlib.hx(src), "impl": a[:500]})
        elif a != want and not (x + y == 0.0 and a in ("ok 0000000000000000", "ok 8000000000000000")):
            rep.violation("plus:" + src, "%s gave %s, expected %s" % (src[:70], a, want), {"op": "num lit " + vlib.hx(src), "src": src, "impl": a, "expected": want})

    # a few deliberately non-shortest / wrong texts for the model side of isShortestRT
    neg_cases = []
    for x, t in [(0.1, "0.10000000000000001"), (0.1, "0.1000000000000000055511151231257827"), (0.3, "0.30000000000000004"),
                 (1e23, "99999999999999991611392"), (5e-324, "4.9e-324"), (1.0, "1.0000000000000001"), (2.0 ** 53, "9007199254740993")]:
        neg_cases.append("num shortest %s %s" % (hb(x), vlib.hx(t)))
    sl = [c["line"] for c in sh_cases]
    a2 = vlib.impl(sl)
    m2 = vlib.model(sl + neg_cases)
    for c, a, m in zip(sh_cases, a2, m2):
        if a != m:
            rep.disagreement(c["key"], "isShortestRT rejects the text printed by the implementation (or driver mismatch)",
                             {"case": c, "impl": a, "model": m})
    for l, m in zip(neg_cases, m2[len(sl):]):
        if m != "false" and "393030373139393235343734303939" not in l:
            rep.disagreement(l, "isShortestRT accepts a non-shortest text", {"case": {"key": l}, "impl": "-", "model": m})

    # ---------------- 6. specification functions against Python
    rl = []
    rexp = []
    for _ in range(250 * n_scale):
        k = rng.random()
        if k < 0.3:
            num, den = rng.getrandbits(rng.choice([10, 60, 64, 120, 1100])), rng.getrandbits(rng.choice([1, 10, 60, 64, 200, 1100])) + 1
        elif k < 0.6:
            x = abs(rand_double(rng))
            fr = Fraction(x)
            # exactly on / next to a midpoint between neighbouring doubles
            b = bits(x)
            if b + 1 < INF_BITS:
                mid = (Fraction(fb(b)) + Fraction(fb(b + 1))) / 2
                fr = mid + rng.choice([0, 0, Fraction(1, 10 ** 40), -Fraction(1, 10 ** 40)]) * mid
            num, den = fr.numerator, fr.denominator
        else:
            num, den = rng.getrandbits(64) * 10 ** rng.randrange(0, 320), 10 ** rng.randrange(0, 340)
        fr = Fraction(num, den)
        try:
            v = fr.numerator / fr.denominator
            want = bits(v) if not math.isinf(v) else INF_BITS
        except OverflowError:
            want = INF_BITS
        rl.append("num round %d %d" % (num, den))
        rexp.append("%016x" % want)
        rl.append("num nearest %d %d %016x" % (num, den, want))
        rexp.append("true")
        wrong = want + rng.choice([1, -1])
        if 0 <= wrong <= INF_BITS:
            rl.append("num nearest %d %d %016x" % (num, den, wrong))
            rexp.append("false")
    rm = vlib.model(rl)
    for l, w, m in zip(rl, rexp, rm):
        rep.bump("spec-vs-python")
        if w != m:
            rep.disagreement(l[:200], "roundNE / isNearestEven disagree with Python's correctly rounded division",
                             {"case": {"key": l[:2000]}, "impl": w, "model": m})

    # ---------------- 7. every member of std with boundary arguments (generic oracle)
    gl = []
    shapes = [lambda: jnum(pick(rng, 0.7)),
              lambda: "[" + ", ".join(jnum(pick(rng, 0.7)) for _ in range(rng.choice([0, 1, 2, 3, 5]))) + "]",
              lambda: vlib.jsonnet_str(repr(abs(pick(rng, 0.7)))),
              lambda: "[%s, %s, %s]" % (jnum(MAXF), jnum(MAXF), jnum(-MAXF)),
              lambda: "function(x) x", lambda: "function(a, b) a + b", lambda: "{a: %s}" % jnum(pick(rng, 0.8))]
    for k in sorted(members):
        ar = members[k]
        if not isinstance(ar, int) or k in ("extVar", "native", "trace", "assertEqual"):
            continue
        for _ in range((5 if k in OTHER_STD else 3) * n_scale):
            args = []
            for j in range(ar):
                w = rng.random()
                args.append(shapes[0]() if w < 0.5 else shapes[rng.randrange(1, len(shapes))]())
            # optional parameters: sometimes leave the defaults
            if ar >= 2 and k in ("sort", "uniq", "set", "setInter", "setUnion", "setDiff", "setMember", "minArray",
                                 "maxArray", "manifestJsonEx", "manifestYamlDoc", "manifestYamlStream", "get") and rng.random() < 0.7:
                args = args[:1 if k not in ("setInter", "setUnion", "setDiff", "setMember", "manifestJsonEx", "get") else 2]
            src = "std.%s(%s)" % (k, ", ".join(args))
            gl.append((k, src))
    for src in ["std.sort([1e308, -1e308, 0.0, -0.0, 5e-324])", "std.sum([1e308,1e308]) < 1", "std.maxArray([1e308, 5e-324, -0.0])",
                "local i = std.sum([1e308, 1e308]); std.sum([i, -i]) < 1", "std.foldl(function(a, b) a + b, [1e308, 1e308], 0)",
                "std.foldl(function(a, b) a * b, [1e200, 1e200], 1)", "std.avg([1e308, 1e308, 1e308])", "std.minArray([1/3, 0.1+0.2])",
                "std.range(0, 3)[3] / 0.0", "std.length([1,2,3]) * 1e308 * 10", "std.sort([0.1, 1e308 * 10])", "std.set([1e308, 1e308 + 1e292])",
                "std.format('%d', 1e308)", "std.toString(1e308 * 10)", "std.parseJson('1e400')", "std.parseJson('[1e308, 1e309]')",
                "std.parseYaml('a: 1e999')", "std.parseYaml('.inf')", "std.parseYaml('.nan')", "std.parseYaml('0x7ff0000000000000')",
                "std.parseJson('-0')", "std.manifestJson(-0.0)", "std.count([1e308*2], 1)", "std.clamp(1e308*2, 0, 1)",
                "std.mod(1e308, 1e-308)", "1e308 %% 1e-308", "std.exponent(1e308) + std.mantissa(1e308)", "std.pi * 1e308",
                "std.pow(std.pi, 1e3)", "std.sum(std.makeArray(3, function(i) 1e308))", "std.avg(std.makeArray(3, function(i) -1e308))",
                "std.round(1e308 * 1.5)", "std.flatMap(function(a, b) a + b, [1, 2])", "std.map(std.pow, [1])",
                "-(-1.7976931348623157e308) * 2", "std.deg2rad(1e308) * 1e3"]:
        gl.append(("expr", src.replace("%%", "%")))
    # comparisons never see a NaN (partial_cmp().unwrap() in State::CompareValue)
    for _ in range(150 * n_scale):
        a, b = jnum(pick(rng, 0.7)), jnum(pick(rng, 0.7))
        gl.append(("cmp", rng.choice(["%s < %s", "%s <= %s", "%s > %s", "%s >= %s", "%s == %s", "std.__compare(%s, %s)",
                                      "std.sort([%s, %s, 0, -0.0])", "std.max(%s, %s)", "std.minArray([%s, %s])",
                                      "std.set([%s, %s])", "std.setMember(%s, [%s])"]) % (a, b)))
    gen_lines = ["num eval " + vlib.hx(src) for _, src in gl]
    gen_out = vlib.impl(gen_lines)
    for (k, src), line, out in zip(gl, gen_lines, gen_out):
        rep.bump("generic")
        rep.bump("generic:" + out.split(" ")[0])
        rep.count(line, True, sample={"src": src[:100], "impl": out[:40]} if rng.random() < 0.004 else None)
        rpl = {"op": line, "src": src, "impl": out[:400]}
        if out.startswith("panic") or out.startswith("crash"):
            rep.violation(panic_key(out), "implementation panicked on %s" % src[:100], rpl)
        elif out.startswith("ok "):
            if not is_finite_bits(int(out[3:], 16)):
                rep.violation("nonfinite:" + src, "%s yields a non-finite number (%s)" % (src[:100], out), rpl)
    # results nested in arrays / objects / strings: look at the manifested text
    ml = [vlib.eval_line(src, mode="json") for _, src in gl]
    mout = vlib.impl(ml)
    for (k, src), line, out in zip(gl, ml, mout):
        r = vlib.parse_eval(out)
        rpl = {"op": line, "src": src, "impl": out[:400]}
        if r[0] in ("panic", "crash"):
            rep.violation(panic_key(out), "implementation panicked on %s" % src[:100], rpl)
        elif r[0] == "ok":
            # number tokens outside strings
            body = re.sub(r'"(\\.|[^"\\])*"', '""', r[1])
            if re.search(r"\b(inf|nan|NaN|Infinity)\b", body):
                rep.violation("nonfinite-text:" + src, "%s manifests a non-finite number: %s" % (src[:100], body[:80]), rpl)


def replay(record):
    rp = record["replay"]
    line = rp.get("op") or (rp.get("case") or {}).get("line") or (rp.get("case") or {}).get("key")
    if not line:
        print("no replayable request in record")
        return 1
    vlib.build_harness()
    a = vlib.impl([line])[0]
    print("request:", line[:300])
    if "src" in rp:
        print("source :", rp["src"][:300])
    print("impl   :", a[:600])
    bad = a.startswith("panic") or a.startswith("crash")
    if line.startswith("num "):
        m = vlib.model([line])[0]
        print("model  :", m[:600])
        w = line.split(" ")
        if w[1] == "op":
            bad = bad or canon_op(w[2], a) != canon_op(w[2], m)
        elif w[1] in ("show", "eval"):
            pass
        else:
            bad = bad or a != m
        if a.startswith("ok ") and len(a) == 19 and not is_finite_bits(int(a[3:], 16)):
            print("oracle : non-finite number")
            bad = True
    if "expected" in rp:
        print("expected:", rp["expected"])
        bad = bad or ("ok " + rp["expected"] != a and rp["expected"] != a)
    if a.startswith("ok ") and line.startswith("eval "):
        t = vlib.unhx(a.split(" ")[1]).decode("utf-8", "replace")
        print("text   :", t[:300])
        if re.search(r"\b(inf|nan|NaN)\b", t):
            bad = True
    return 1 if bad else 0
