"""C05 — every emitted document is well-formed and decodes to its value.

Differential part: values x formats through the real manifester (harness op `json manifest`)
and the Lean model (`RsjModel/Json.lean`), byte-equal output; JSON texts (valid, mutated,
malformed) through `std.parseJson` and the model's `parseJson`.

Direct oracles on the implementation's output, independent of the model:
  JSON   : Python `json` (strict, NaN/Infinity rejected, duplicate keys detected) + a
           hand-written RFC 8259 recogniser; numbers compared by IEEE bit pattern, strings by
           code points, keys strictly increasing, hidden fields absent
  Python : ast.literal_eval                TOML : tomllib            YAML : PyYAML safe_load

Section "YAML / TOML writers" (work package H): the YAML document/stream emitter and the TOML table writer are
modelled too (`RsjModel/Yaml.lean`, `RsjModel/Toml.lean`, model ops `yaml` / `toml`; implementation sub-commands
`json yamldoc|yamlstream|toml|toml0`): byte-for-byte comparison over block scalars, every flag combination, tables /
arrays of tables / inline values, the error outcomes (null, non-object), plus the same foreign decoders.
"""
import ast
import json
import math
import re
import struct
from decimal import Decimal, ROUND_HALF_UP

import vlib

try:
    import tomllib
except Exception:  # pragma: no cover
    tomllib = None
try:
    import yaml
except Exception:  # pragma: no cover
    yaml = None


# ----------------------------------------------------------------------------- values
class Obj:
    """source-level object: fields (hidden, key, value) in source order"""

    def __init__(self, fields):
        self.fields = fields


def bits(x):
    return struct.unpack("<Q", struct.pack("<d", x))[0]


def from_bits(b):
    return struct.unpack("<d", struct.pack("<Q", b))[0]


def rust_display(x):
    """text that `format!("{}", f64)` prints: shortest round-trip digits, positional, no `.0`.
    Python's repr has the same number of digits and also picks the candidate closest to the exact value; they differ
    only when two candidates are equally close (e.g. 202558290741772.125 -> repr ...72.12, Rust ...72.13): Rust's
    digit generation rounds such a tie away from zero, repr to even."""
    if x == 0:
        return "-0" if math.copysign(1.0, x) < 0 else "0"
    d = Decimal(repr(x))
    exact = Decimal(x)
    if d != exact:
        # same number of significant digits, ties away from zero
        exp = d.as_tuple().exponent
        cand = exact.quantize(Decimal(1).scaleb(exp), rounding=ROUND_HALF_UP)
        if cand != d and float(cand) == x:
            d = cand
    s = format(d, "f")
    if "." in s:
        s = s.rstrip("0").rstrip(".")
    return s


def hexs(s):
    return s.encode("utf-8").hex()


def wire(v):
    if v is None:
        return "z"
    if v is True:
        return "t"
    if v is False:
        return "f"
    if isinstance(v, float):
        return "n%016x:%s;" % (bits(v), hexs(rust_display(v)))
    if isinstance(v, str):
        return "s%s;" % hexs(v)
    if isinstance(v, list):
        return "[" + "".join(wire(x) for x in v) + "]"
    if isinstance(v, Obj):
        return "{" + "".join(("h" if h else "v") + hexs(k) + ";" + wire(x) for h, k, x in v.fields) + "}"
    raise TypeError(v)


def expected(v):
    """the value a decoder must return: visible fields only, sorted by code point"""
    if isinstance(v, list):
        return [expected(x) for x in v]
    if isinstance(v, Obj):
        fs = [(k, expected(x)) for h, k, x in v.fields if not h]
        fs.sort(key=lambda kv: kv[0])
        return ("obj", fs)
    return v


def same(a, b, exact_numbers=True):
    """decoded == expected; numbers by bit pattern (or numerically), strings by code points"""
    if isinstance(b, tuple):
        if not (isinstance(a, tuple) and len(a[1]) == len(b[1])):
            return False
        return all(ka == kb and same(va, vb, exact_numbers) for (ka, va), (kb, vb) in zip(a[1], b[1]))
    if isinstance(b, list):
        return isinstance(a, list) and len(a) == len(b) and all(same(x, y, exact_numbers) for x, y in zip(a, b))
    if isinstance(b, bool) or b is None:
        return a is b
    if isinstance(b, float):
        if isinstance(a, bool) or not isinstance(a, (int, float)):
            return False
        if exact_numbers:
            return isinstance(a, float) and bits(a) == bits(b)
        try:
            return float(a) == b
        except OverflowError:
            return False
    if isinstance(b, str):
        return isinstance(a, str) and a == b
    return False


def needs_escape(s):
    return any(ord(c) < 0x20 or 0x7F <= ord(c) <= 0x9F or c in '"\\' for c in s)


def nontrivial(v):
    if isinstance(v, str):
        return needs_escape(v)
    if isinstance(v, list):
        return len(v) >= 2 or any(nontrivial(x) for x in v)
    if isinstance(v, Obj):
        vis = [f for f in v.fields if not f[0]]
        return len(vis) >= 2 or any(needs_escape(k) or nontrivial(x) for h, k, x in v.fields)
    return False


def jsonnet_src(v):
    """Jsonnet source text denoting the value (numbers via shortest repr, which the
    correctly rounded str::parse::<f64> of the lexer maps back to the same double)"""
    if v is None:
        return "null"
    if v is True:
        return "true"
    if v is False:
        return "false"
    if isinstance(v, float):
        return "(%s)" % repr(v)
    if isinstance(v, str):
        return vlib.jsonnet_str(v)
    if isinstance(v, list):
        return "[" + ", ".join(jsonnet_src(x) for x in v) + "]"
    if isinstance(v, Obj):
        return "{" + ", ".join("%s%s %s" % (vlib.jsonnet_str(k), "::" if h else ":", jsonnet_src(x))
                               for h, k, x in v.fields) + "}"
    raise TypeError(v)


# ----------------------------------------------------------------------------- generators
SPECIAL_CP = (list(range(0, 0xA0)) + [0xA0, 0xAD, 0x2028, 0x2029, 0xD7FF, 0xE000, 0xFFFD, 0xFEFF, 0xFFFE, 0xFFFF,
                                       0x10000, 0x1F600, 0x10FFFF, 0x7FF, 0x800, 0xE9, 0x3042])
NUMBERS = [0.0, -0.0, 1.0, -1.0, 5e-324, -5e-324, 1.7976931348623157e308, -1.7976931348623157e308,
           2.2250738585072014e-308, float(2 ** 53 - 1), float(2 ** 53), float(2 ** 53 + 2), 0.1, 0.5, 1.5, -2.25,
           1e21, 1e22, 1e-7, 123456789.125, 1 / 3, 100.0, 1e15, 1e16, 1e17, 4294967296.0, 0.30000000000000004,
           9.5e-5, 1.7976931348623155e308]
YAML_KEYS = ["on", "ON", "null", "Null", "y", "n", "yes", "no", "off", "true", "FALSE", "1", "-1", "1_000", "12-3",
             "1e3", "1.5", "1.5e3", "-.5", "0x1f", "-0x1F", "0b101", "0o17", "2020-01-01", ".inf", "-.inf", ".nan",
             ".NaN", "-", "---", "--", "", "a-b", "a.b", "a/b", "_a", "a b", "a:b", "a#b", "~", "1.2.3", "e", "E1",
             "-e-", "1-", "0x", "0b", "x.y-z_1", "key", "Z", "0", "00", "1e", ".", "..", "-.", "+.inf", "é", "a\n"]


def gen_str(rng, keyish=False):
    r = rng.random()
    if keyish and r < 0.35:
        return rng.choice(YAML_KEYS)
    if r < 0.15:
        return ""
    n = rng.choice([1, 1, 2, 3, 5, 8])
    out = []
    for _ in range(n):
        k = rng.random()
        if k < 0.4:
            out.append(chr(rng.choice(SPECIAL_CP)))
        elif k < 0.8:
            out.append(rng.choice('abcXYZ019 _-./"\\\'{}[]:,#&*!|>%@`'))
        elif k < 0.9:
            out.append(chr(rng.randrange(0xA0, 0xD800)))
        else:
            out.append(chr(rng.randrange(0x10000, 0x110000)))
    return "".join(out)


def gen_num(rng):
    r = rng.random()
    if r < 0.5:
        return rng.choice(NUMBERS)
    if r < 0.7:
        return float(rng.randrange(-1000, 1000))
    if r < 0.8:
        return rng.randrange(-10 ** 6, 10 ** 6) / rng.choice([8, 10, 100, 1000, 3])
    while True:
        x = from_bits(rng.getrandbits(64))
        if math.isfinite(x):
            return x


def gen_val(rng, depth, no_null=False, strs=None):
    strs = strs or gen_str
    keyish = strs in (gen_str, gen_yaml_str, gen_yaml12_str)
    r = rng.random()
    if depth <= 0 or r < 0.45:
        k = rng.random()
        if k < 0.1 and not no_null:
            return None
        if k < 0.25:
            return rng.random() < 0.5
        if k < 0.6:
            return gen_num(rng)
        return strs(rng)
    n = rng.choice([0, 1, 2, 2, 3, 4])
    if r < 0.7:
        return [gen_val(rng, depth - 1, no_null, strs) for _ in range(n)]
    keys = []
    while len(keys) < n:
        k = strs(rng, True) if keyish else strs(rng)
        if k not in keys:
            keys.append(k)
    return Obj([(rng.random() < 0.15, k, gen_val(rng, depth - 1, no_null, strs)) for k in keys])


def gen_yaml_str(rng, keyish=False):
    """strings for the PyYAML (YAML 1.1) oracle: no trailing newline; PyYAML rejects raw U+FFFE/U+FFFF
    (YAML 1.2 requires processors to accept them inside quoted scalars) and treats U+2028/U+2029 as
    line breaks (ordinary characters in YAML 1.2): single-line keys break, adjacent spaces are folded."""
    while True:
        s = gen_str(rng, keyish)
        if s.endswith("\n") or any(c in s for c in "\ufffe\uffff\u2028\u2029"):
            continue
        return s


def gen_yaml12_str(rng, keyish=False):
    """strings PyYAML cannot judge; decoded with the implementation's own std.parseYaml instead"""
    s = gen_yaml_str(rng, keyish)
    i = rng.randrange(len(s) + 1)
    return s[:i] + rng.choice("\ufffe\uffff\u2028\u2029") + s[i:] + "x"


WS_INDENT = ["", " ", "  ", "    ", "\t", " \t", "\n", "\r"]
WS_NEWLINE = ["", "\n", "\r\n", " ", "\n\n", "\t"]
WS_KV = [":", ": ", " : ", ":\t", "\n:\n", " :"]
NONWS = [("--", "#", "=>"), ("x", "\n", ": "), ("", "é", ":"), ("\u2028", "\n", " = "), ("\\", '"', ":")]


def json_formats(rng):
    fs = ["D", "T", "S", "C", "M", "J"]
    for _ in range(6):
        fs.append("X:%s:%s:%s" % (vlib.hx(rng.choice(WS_INDENT)), vlib.hx(rng.choice(WS_NEWLINE)),
                                  vlib.hx(rng.choice(WS_KV))))
    fs.append("X1:%s" % vlib.hx(rng.choice(WS_INDENT)))
    return fs


# ----------------------------------------------------------------------------- oracles
class Dup(Exception):
    pass


def _pairs(ps):
    keys = [k for k, _ in ps]
    if len(set(keys)) != len(keys):
        raise Dup("duplicate key")
    return ("obj", list(ps))


def _const(c):
    raise ValueError("non-JSON constant " + c)


WS = " \t\n\r"
NUM_RE = re.compile(r"-?(0|[1-9][0-9]*)(\.[0-9]+)?([eE][+-]?[0-9]+)?")


def rfc8259(text):
    """Independent recogniser of the RFC 8259 grammar (returns None or an error string)."""
    n = len(text)
    pos = 0

    def ws(p):
        while p < n and text[p] in WS:
            p += 1
        return p

    def string(p):
        if p >= n or text[p] != '"':
            return -1
        p += 1
        while p < n:
            c = text[p]
            if c == '"':
                return p + 1
            if ord(c) < 0x20:
                return -1
            if c == "\\":
                if p + 1 >= n:
                    return -1
                e = text[p + 1]
                if e in '"\\/bfnrt':
                    p += 2
                elif e == "u":
                    if not re.fullmatch(r"[0-9a-fA-F]{4}", text[p + 2:p + 6]):
                        return -1
                    p += 6
                else:
                    return -1
            else:
                p += 1
        return -1

    # iterative value recogniser with an explicit stack of '[' / '{'
    stack = []
    pos = ws(pos)
    expect_value = True
    while True:
        if expect_value:
            if pos >= n:
                return "value expected at end"
            c = text[pos]
            if c == "[":
                pos = ws(pos + 1)
                if pos < n and text[pos] == "]":
                    pos = ws(pos + 1)
                    expect_value = False
                else:
                    stack.append("[")
                continue
            if c == "{":
                pos = ws(pos + 1)
                if pos < n and text[pos] == "}":
                    pos = ws(pos + 1)
                    expect_value = False
                    continue
                stack.append("{")
                p = string(pos)
                if p < 0:
                    return "key expected at %d" % pos
                pos = ws(p)
                if pos >= n or text[pos] != ":":
                    return "colon expected at %d" % pos
                pos = ws(pos + 1)
                continue
            if c == '"':
                p = string(pos)
                if p < 0:
                    return "bad string at %d" % pos
                pos = ws(p)
            elif text.startswith("true", pos):
                pos = ws(pos + 4)
            elif text.startswith("false", pos):
                pos = ws(pos + 5)
            elif text.startswith("null", pos):
                pos = ws(pos + 4)
            else:
                m = NUM_RE.match(text, pos)
                if not m:
                    return "value expected at %d" % pos
                pos = ws(m.end())
            expect_value = False
        else:
            if not stack:
                return None if pos == n else "trailing garbage at %d" % pos
            if pos >= n:
                return "unterminated container"
            c = text[pos]
            top = stack[-1]
            if c == "," and top == "[":
                pos = ws(pos + 1)
                expect_value = True
            elif c == "," and top == "{":
                pos = ws(pos + 1)
                p = string(pos)
                if p < 0:
                    return "key expected at %d" % pos
                pos = ws(p)
                if pos >= n or text[pos] != ":":
                    return "colon expected at %d" % pos
                pos = ws(pos + 1)
                expect_value = True
            elif (c == "]" and top == "[") or (c == "}" and top == "{"):
                stack.pop()
                pos = ws(pos + 1)
            else:
                return "separator expected at %d" % pos


def oracle_json(text, exp):
    bad = rfc8259(text)
    if bad:
        return "not RFC 8259 JSON: " + bad
    try:
        dec = json.loads(text, strict=True, parse_constant=_const, object_pairs_hook=_pairs,
                         parse_float=float, parse_int=float)
    except Dup:
        return "duplicate object key"
    except Exception as e:  # noqa
        return "rejected by json.loads: %s" % (str(e)[:80])
    if not sorted_keys(dec):
        return "object keys not strictly increasing"
    if not same(dec, exp):
        return "decodes to a different value"
    return None


def sorted_keys(d):
    if isinstance(d, tuple):
        ks = [k for k, _ in d[1]]
        return all(a < b for a, b in zip(ks, ks[1:])) and all(sorted_keys(v) for _, v in d[1])
    if isinstance(d, list):
        return all(sorted_keys(x) for x in d)
    return True


def to_tagged(x):
    """python dict/list tree -> tagged tree with sorted objects"""
    if isinstance(x, dict):
        return ("obj", sorted(((k, to_tagged(v)) for k, v in x.items()), key=lambda kv: str(kv[0])))
    if isinstance(x, list):
        return [to_tagged(v) for v in x]
    return x


def oracle_python(text, exp):
    try:
        dec = ast.literal_eval(text)
    except Exception as e:  # noqa
        return "rejected by ast.literal_eval: %s" % (str(e)[:80])
    return None if same(to_tagged(dec), exp, exact_numbers=False) else "Python literal decodes to a different value"


def oracle_toml(text, exp):
    try:
        dec = tomllib.loads(text)
    except Exception as e:  # noqa
        return "rejected by tomllib: %s" % (str(e)[:80])

    def big_int(x):
        if isinstance(x, bool):
            return None
        if isinstance(x, int) and not (-2 ** 63 <= x < 2 ** 63):
            return x
        if isinstance(x, dict):
            x = list(x.values())
        if isinstance(x, list):
            for y in x:
                b = big_int(y)
                if b is not None:
                    return b
        return None
    b = big_int(dec)
    if b is not None:
        # TOML v1.0.0, Integer: "If an integer cannot be represented losslessly, an error must be thrown" by parsers
        # with 64-bit integers; tomllib only accepts it because Python integers are unbounded
        return "integer literal %d is outside the 64-bit range of TOML integers (a parser with 64-bit integers must reject the document)" % b
    return None if same(to_tagged(dec), exp, exact_numbers=False) else "TOML decodes to a different value"


def oracle_yaml(text, exp, stream=False):
    try:
        if stream:
            dec = list(yaml.safe_load_all(text))
        else:
            dec = yaml.safe_load(text)
    except Exception as e:  # noqa
        return "rejected by PyYAML: %s" % (" ".join(str(e).split())[:100])
    try:
        t = to_tagged(dec)
    except Exception:
        return "YAML decodes to a different value (non-string key)"
    return None if same(t, exp, exact_numbers=False) else "YAML decodes to a different value"


# ----------------------------------------------------------------------------- wire answers
def parse_wire(s):
    """answer of `json parse`: -> tagged tree; numbers as bit patterns (int)"""
    pos = 0

    def rd():
        nonlocal pos
        c = s[pos]
        pos += 1
        if c == "z":
            return None
        if c == "t":
            return True
        if c == "f":
            return False
        if c == "n":
            j = s.index(":", pos)
            k = s.index(";", j)
            b, tok = s[pos:j], s[j + 1:k]
            pos = k + 1
            if b:
                return ("num", int(b, 16))
            return ("num", bits(float(bytes.fromhex(tok).decode("ascii"))))
        if c == "s":
            k = s.index(";", pos)
            h = s[pos:k]
            pos = k + 1
            return bytes.fromhex(h).decode("utf-8")
        if c == "[":
            out = []
            while s[pos] != "]":
                out.append(rd())
            pos += 1
            return out
        if c == "{":
            out = []
            while s[pos] != "}":
                pos += 1
                k = s.index(";", pos)
                key = bytes.fromhex(s[pos:k]).decode("utf-8")
                pos = k + 1
                out.append((key, rd()))
            pos += 1
            return ("obj", sorted(out, key=lambda kv: kv[0]))
        raise ValueError("bad wire " + s[:40])

    v = rd()
    if pos != len(s):
        raise ValueError("trailing wire")
    return v


def canon_parse_answer(a):
    w = a.split(" ")
    if w[0] == "ok" and len(w) == 2:
        try:
            return ("ok", parse_wire(w[1]))
        except Exception as e:  # noqa
            return ("unreadable", a[:100])
    if w[0] == "err" and len(w) == 2:
        k = w[1]
        if k.startswith("repeatedFieldName"):
            k = "repeatedFieldName"
        return ("err", k)
    return ("other", a[:200])


def tagged_to_bits(v):
    """expected tree with floats -> same shape as parse_wire output"""
    if isinstance(v, tuple):
        return ("obj", [(k, tagged_to_bits(x)) for k, x in v[1]])
    if isinstance(v, list):
        return [tagged_to_bits(x) for x in v]
    if isinstance(v, float):
        return ("num", bits(v))
    return v


# ----------------------------------------------------------------------------- JSON text generators (parser tie)
JSON_CORPUS = [
    "", " ", "null", " null ", "nul", "nullx", "true false", "[", "]", "[]", "[ ]", "{}", "{ }", "[1,]", "[,1]", "[1 2]",
    '{"a":1,}', '{"a" 1}', '{"a":}', "{a:1}", '{"a":1,"a":2}', '{"a":{"a":1},"b":{"b":1,"b":2}}', "0", "-0", "-", "01",
    "1.", ".1", "1.e1", "1e", "1e+", "1E-2", "1e400", "-1e400", "1e-400", "0.0000000000000000000000000000001e+40",
    "1.7976931348623157e308", "1.7976931348623158e308", "1.797693134862315807e308", "1.797693134862315808e308",
    "179769313486231580793728971405303415079934132710037826936173778980444968292764750946649017977587207096330286416"
    "692887910946555547851940402630657488671505820681908902000708383676273854845817711531764475730270069855571366959"
    "622842914819860834936475292719074168444365510704342711559699508093042880177904174497791",
    "179769313486231580793728971405303415079934132710037826936173778980444968292764750946649017977587207096330286416"
    "692887910946555547851940402630657488671505820681908902000708383676273854845817711531764475730270069855571366959"
    "622842914819860834936475292719074168444365510704342711559699508093042880177904174497792",
    "17976931348623158" + "0" * 292, "0." + "0" * 400 + "1", "1" + "0" * 400 + "e-400", "12e99999999999999999999", "0e99999999999999999999",
    "1e-99999999999999999999", "4.9e-324", "2.5e-324", "2.4e-324", "5e-324", "123456789012345678901234567890", "1E5", "+1",
    '"', '"a', '"\\', '"\\"', '"\\u', '"\\u12"', '"\\u12g4"', '"\\u0041"', '"\\uD83D\\uDE00"', '"\\ud83d\\ude00"', '"\\uD83D"',
    '"\\uD83Dx"', '"\\uD83D\\n"', '"\\uD83D\\u0041"', '"\\uDE00\\uD83D"', '"\\uDE00"', '"\\uD83D\\uD83D"', '"\\uD83D\\u"',
    '"\\uD83D\\uDE0"', '"\\x41"', '"\\/"', '"\\b\\f\\n\\r\\t\\"\\\\"', '"\t"', '"\n"', '"\x1f"', '"\x7f"', '"\u2028"', '"\\a"', "'a'",
    '["a","b"]x', "[[[[[[[[[[]]]]]]]]]]", "[[[[[[[[[[]]]]]]]]]", '{"a":[{"b":[{}]}]}', "\ufeff1", "1\x00", "\x0b1", "[1,\n 2,\r\n\t3 ]",
    "tru", "truefalse", "falsey", "[null,true,false]", '{"":""}', '{"a":1,"b":2,"":3}', '{"b":1,"a":2}', "nan", "NaN", "Infinity",
    "-Infinity", "[1e308,1e309]", "1e308 ", "\u00a01", "1\u00a0", "[1]]", "{}{}", '{"a":1}}', "/**/1", "1//x", "[1,,2]",
]


def mutate(rng, text):
    if not text:
        return text
    k = rng.random()
    i = rng.randrange(len(text))
    if k < 0.3:
        return text[:i] + text[i + 1:]
    if k < 0.6:
        return text[:i] + rng.choice('"\\[]{},:0e.-+ \n\tu') + text[i:]
    if k < 0.8:
        return text[:i] + rng.choice('"\\[]{},:0e.-+ \n\tuxé') + text[i + 1:]
    return text[:i]


def gen_json_text(rng):
    out = []
    for _ in range(rng.randrange(1, 10)):
        out.append(rng.choice(['{', '}', '[', ']', ',', ':', '"a"', '"b"', '""', '1', '-0', '1.5e3', '0', 'null', 'true', 'false',
                               ' ', '\n', '"\\u0041"', '"\\ud800"', '1e999', 'x', '"', '\\', '0.', '-', 'e']))
    return "".join(out)


# ----------------------------------------------------------------------------- the check
def run(rep):
    rep.rule = ("random JSON-representable values (nesting <= 4, empty containers, hidden fields, doubles incl. -0 / 5e-324 / "
                "max / 2^53+-1 / random bit patterns, strings over every control character U+0000..U+009F, U+2028/9, "
                "surrogate-adjacent, noncharacters, astral, quotes/backslashes, keys needing escapes and YAML-resolvable "
                "keys) x output formats (default, toString, coercion, manifestJson, Minified, manifestJsonEx with "
                "whitespace and non-whitespace settings, manifestPython, manifestTomlEx, manifestYamlDoc/Stream); "
                "plus JSON texts (corpus, implementation outputs, mutations, token soup) through std.parseJson; "
                "non-trivial = value has a container with >= 2 entries or a string/key needing an escape; distinct by "
                "format + wire text")
    rep.assumptions = [
        "number text: the model treats a number as its token; the token handed to the model is computed in Python "
        "(repr -> positional, no '.0'), so byte equality also checks that text against Rust's Display",
        "numbers decoded by Python/TOML/YAML parsers are compared numerically (1 vs 1.0, -0 vs 0), JSON bit-exactly",
        "YAML decoder = PyYAML %s safe_load (YAML 1.1): strings not ending in newline; strings with raw U+FFFE/U+FFFF "
        "(rejected by PyYAML, must be accepted inside quoted scalars per YAML 1.2 5.1) or U+2028/U+2029 "
        "(line breaks only in YAML 1.1: PyYAML folds them) are decoded with the implementation's own std.parseYaml instead; "
        "std.manifestYamlStream is exercised with >= 1 document (for [] it emits one empty document, as upstream does)"
        % (getattr(yaml, "__version__", "absent")),
        "TOML decoder = tomllib (arbitrary-size integers); top-level objects without null",
        "parse errors compared by kind (line/column not modelled)",
        "YAML / TOML writers section: implementation `json yamldoc|yamlstream|toml|toml0` against the models "
        "RsjModel/Yaml.lean, RsjModel/Toml.lean (model ops `yaml`, `toml`), byte for byte, all flag combinations and "
        "defaults, indents '', ' ', '  ', '    ', tab; error outcomes (null anywhere -> 'cannot manifest null in TOML', "
        "non-object / non-array arguments) checked against the value, independent of the model",
        "block scalars (strings ending in a newline; outside the property's quantifier): always compared with the model; "
        "decoded with PyYAML only in the shapes YAML reads back (printable content, last line not empty, first non-empty "
        "line not starting with a space) and with a line break appended to the document (clip chomping drops the final "
        "newline of a block scalar that ends the text); a failure there is recorded as a broken tie, not as a violation",
        "TOML numbers: an integer literal outside the signed 64-bit range is judged a violation although tomllib reads it "
        "(arbitrary precision): TOML v1.0.0 obliges parsers with 64-bit integers to reject it",
    ]
    regenerate_table(rep)
    vlib.prelude(rep, cli=True)
    rng = rep.rng
    quick = rep.tier == "quick"
    nvals = 500 if quick else 15000

    # ---------------- manifest cases
    cases = []

    def add(fmt, v, kind, exp=None):
        w = wire(v)
        cases.append({"key": "%s %s" % (fmt, w), "fmt": fmt, "v": v, "kind": kind,
                      "exp": expected(v) if exp is None else exp})

    fixed = [
        Obj([(False, "b", [1.0, 2.0]), (True, "h", "x"), (False, "a", Obj([]))]),
        [[], Obj([]), [[]], Obj([(False, "", [])])],
        "".join(chr(c) for c in range(0, 0x21)) + '"\\/' + "".join(chr(c) for c in range(0x7E, 0xA1)),
        Obj([(False, "\u001f\"\\", "\u2028\u2029"), (False, "\u0000", "\U0010ffff\ud7ff\ue000")]),
        [0.0, -0.0, 5e-324, 1.7976931348623157e308, float(2 ** 53 - 1), float(2 ** 53 + 2)],
        Obj([(False, "z", 1.0), (False, "é", 2.0), (False, "a", 3.0), (False, "Z", 4.0), (False, "\U0001f600", 5.0),
             (False, "\uffff", 6.0), (False, "aa", 7.0), (False, "", 8.0)]),
    ]
    vals = fixed + [gen_val(rng, rng.choice([1, 2, 3, 4])) for _ in range(nvals)]
    if not quick:
        # every scalar value below U+0800 as a string and as a key
        for c in range(0, 0x800):
            vals.append(Obj([(False, chr(c), chr(c) + "x")]))
    for v in vals:
        fs = json_formats(rng)
        for fmt in (fs if not quick else rng.sample(fs, 5)):
            add(fmt, v, "json")
        i, n, k = rng.choice(NONWS)
        add("X:%s:%s:%s" % (vlib.hx(i), vlib.hx(n), vlib.hx(k)), v, "diff-only")
        add("P", v, "python")

    # YAML: strings not ending in newline
    if yaml is not None:
        for _ in range(nvals // 2):
            v = gen_val(rng, rng.choice([1, 2, 3]), strs=gen_yaml_str)
            fl = "%d%d" % (rng.randrange(2), rng.randrange(2))
            add("Y:" + fl, v, "yaml")
        for _ in range(nvals // 8):
            docs = [gen_val(rng, 2, strs=gen_yaml_str) for _ in range(rng.randrange(1, 4))]
            fl = "%d%d%d" % (rng.randrange(2), rng.randrange(2), rng.randrange(2))
            add("YS:" + fl, docs, "yamlstream")
        for k in YAML_KEYS:
            if not k.endswith("\n"):
                add("Y:00", Obj([(False, k, k)]), "yaml")
                add("Y:10", Obj([(False, k, [Obj([(False, k, 1.0)])])]), "yaml")
    # TOML: null-free top-level objects (differential: implementation only, the TOML table writer is not modelled)
    toml_cases = []
    if tomllib is not None:
        for _ in range(nvals // 2):
            while True:
                v = gen_val(rng, rng.choice([2, 3, 4]), no_null=True)
                if isinstance(v, Obj):
                    break
            ind = rng.choice(["", "  ", "\t", "    "])
            toml_cases.append({"key": "O:%s %s" % (vlib.hx(ind), wire(v)), "fmt": "O:" + vlib.hx(ind), "v": v,
                               "kind": "toml", "exp": expected(v)})

    # YAML 1.2-only characters: decoder = the implementation's own std.parseYaml (`json reparse`)
    ycases = []
    for _ in range(nvals // 4):
        v = gen_val(rng, rng.choice([1, 2, 3]), strs=gen_yaml12_str)
        fl = "%d%d" % (rng.randrange(2), rng.randrange(2))
        ycases.append({"key": "Y:%s %s" % (fl, wire(v)), "v": v})
    ylines = ["json reparse " + c["key"] for c in ycases]
    for c, a in zip(ycases, vlib.impl(ylines)):
        rep.count("reparse " + c["key"], nontrivial(c["v"]))
        rep.bump("yaml-own-parser")
        if a != "ok t":
            rep.violation("yaml-reparse:" + c["key"], "std.parseYaml(std.manifestYamlDoc(v)) != v: " + a[:80],
                          {"op": "json reparse " + c["key"], "impl": a[:500]})

    lines = ["json manifest " + c["key"] for c in cases]
    io = vlib.impl(lines)
    mo = vlib.model(lines)
    tlines = ["json manifest " + c["key"] for c in toml_cases]
    tio = vlib.impl(tlines) if tlines else []

    impl_json_texts = []
    for c, a in zip(cases + toml_cases, io + tio):
        nt = nontrivial(c["v"])
        rep.count(c["key"], nt, sample={"fmt": c["fmt"], "value": c["key"][:120], "impl": a[:160]} if nt and rng.random() < 0.01 else None)
        rep.bump("fmt-" + c["fmt"].split(":")[0])
        st = vlib.parse_eval(a)
        replay = {"op": "json manifest " + c["key"], "impl": a[:1500]}
        if st[0] != "ok":
            rep.violation("manifest-fails:" + c["key"], "manifestation of a JSON-representable value failed: %r" % (st,), replay)
            continue
        text = vlib.unhx(a.split(" ")[1]).decode("utf-8")
        kind = c["kind"]
        bad = None
        if kind == "json":
            if c["fmt"] in ("S", "C") and isinstance(c["v"], str):
                bad = None if text == c["v"] else "toString of a string is not the string"
            else:
                bad = oracle_json(text, c["exp"])
                if len(impl_json_texts) < (400 if quick else 5000):
                    impl_json_texts.append((text, c["exp"]))
        elif kind == "python":
            bad = oracle_python(text, c["exp"])
        elif kind == "toml":
            bad = oracle_toml(text, c["exp"])
        elif kind == "yaml":
            bad = oracle_yaml(text, c["exp"])
        elif kind == "yamlstream":
            bad = oracle_yaml(text, c["exp"], stream=True)
        if bad:
            rep.bump("oracle-failures")
            rep.violation(violation_key(kind, c, bad), "%s output: %s" % (kind, bad), replay)
    vlib.compare(rep, cases, io, mo, label="manifest")

    # ---------------- YAML / TOML writers against their models (work package H)
    yaml_toml_section(rep, rng, quick)

    # ---------------- the CLI's own composition: default output, -y stream items, -m files
    cli_batch(rep, rng, 40 if quick else 600)
    inherited_batch(rep, rng, 300 if quick else 6000)

    # ---------------- escape / key-quoting predicates
    pcases = []
    for cp in (range(0, 0x300) if quick else range(0, 0x3000)):
        pcases.append({"key": "escape " + vlib.hx(chr(cp) + "a")})
    for cp in [0x2028, 0x2029, 0xD7FF, 0xE000, 0xFFFE, 0xFFFF, 0x10000, 0x10FFFF]:
        pcases.append({"key": "escape " + vlib.hx(chr(cp))})
    keyset = list(YAML_KEYS)
    # number look-alikes in every sign / fraction / exponent shape (YAML 1.1 and 1.2 float and int forms)
    for ms in ["", "-", "+"]:
        for mant in ["1", "15", "1.5", ".5", "1.", "0", "0.0", "1_000", "0x1F", "0o17", "017", "0b11", ".inf", ".nan", "1:30"]:
            for ex in ["", "e3", "e-3", "e+3", "E-2", "E+02", "e", "e-"]:
                keyset.append(ms + mant + ex)
    alphabet = "0123456789abefxABEFX_-./onyNY+"
    for _ in range(600 if quick else 20000):
        keyset.append("".join(rng.choice(alphabet) for _ in range(rng.randrange(1, 7))))
    for k in keyset:
        pcases.append({"key": "yamlplain " + vlib.hx(k)})
        pcases.append({"key": "tomlkey " + vlib.hx(k)})
    plines = ["json " + c["key"] for c in pcases]
    pio = vlib.impl(plines)
    pmo = vlib.model(plines)
    for c, a in zip(pcases, pio):
        rep.count(c["key"], True)
        rep.bump("predicate-" + c["key"].split(" ")[0])
        op, h = c["key"].split(" ")
        s = vlib.unhx(h).decode("utf-8")
        if op == "escape":
            try:
                text = vlib.unhx(a).decode("utf-8")
            except Exception:
                text = None
            bad = oracle_json(text, s) if text is not None else "unreadable answer " + a[:60]
            if bad:
                rep.violation("escape:" + h, "escaped string: " + bad, {"op": "json " + c["key"], "impl": a[:300]})
        elif op == "tomlkey" and tomllib is not None:
            try:
                key = vlib.unhx(a).decode("utf-8")
                dec = tomllib.loads(key + " = true")
                ok = dec == {s: True}
            except Exception:
                ok = False
            if not ok:
                rep.violation("tomlkey:" + h, "TOML key does not decode to the field name", {"op": "json " + c["key"], "impl": a[:300]})
        elif op == "yamlplain" and yaml is not None and a == "1":
            try:
                dec = yaml.safe_load(s + ": 1")
                ok = dec == {s: 1}
            except Exception:
                ok = False
            if not ok:
                rep.violation("yamlplain:" + h, "bare YAML key does not decode to the field name", {"op": "json " + c["key"], "impl": a})
    vlib.compare(rep, pcases, pio, pmo, label="escape/key predicate")

    # ---------------- parser tie (model's parseJson is the inverse used by the theorems)
    texts = list(JSON_CORPUS)
    known = {}
    for text, exp in impl_json_texts:
        texts.append(text)
        known[text] = exp
        for _ in range(1 if quick else 3):
            texts.append(mutate(rng, text))
    for _ in range(400 if quick else 20000):
        texts.append(gen_json_text(rng))
    jcases = [{"key": "parse " + vlib.hx(t), "text": t} for t in texts]
    jlines = ["json " + c["key"] for c in jcases]
    jio = vlib.impl(jlines)
    jmo = vlib.model(jlines)
    for c, a, b in zip(jcases, jio, jmo):
        t = c["text"]
        rep.count(c["key"], len(t) >= 3)
        ca, cb = canon_parse_answer(a), canon_parse_answer(b)
        rep.bump("parse-" + ca[0])
        replay = {"op": "json " + c["key"], "impl": a[:800], "model": b[:800]}
        # direct oracle: acceptance == RFC 8259 validity (+ no duplicate keys, finite numbers)
        valid = rfc8259(t) is None
        if ca[0] == "ok" and not valid:
            rep.violation("parseJson-accepts:" + c["key"], "std.parseJson accepts a non-JSON text", replay)
        if t in known and ca != ("ok", tagged_to_bits(known[t])):
            rep.violation("parseJson-roundtrip:" + c["key"], "std.parseJson of the manifested text is not the value", replay)
        if ca != cb:
            rep.disagreement(c["key"], "parse: implementation and model differ", {"case": {"key": c["key"]}, "impl": a[:1500], "model": b[:1500]})


# ----------------------------------------------------------------------------- YAML / TOML writers (work package H)
H_STR_PIECES = ["a", "b", "Z", "0", "1", " ", "  ", "\n", "\n\n", "\t", "-", "- ", "#", " #", ":", ": ", "|", ">", "'", '"', "\\",
                "é", "あ", "\U0001f600", "x y", "? ", "%", "---", "...", "&", "*", "!", "[", "]", "{", "}", ",", "@", "`",
                "null", "true", "no", "~", "1e3", "0x1F", "\r", "\x00", "\x1f", "\x7f", "\x85", "\xa0", "\u2028", "\ufeff",
                "\ufffe", "=", ".", "_"]
H_WORDS = ["", "null", "Null", "NULL", "~", "true", "True", "false", "yes", "No", "on", "off", "y", "n", ".inf", "-.inf", ".nan",
           "1", "-1", "0", "-0", "1.5", "1e3", "0x1F", "0o17", "1_000", "2020-01-01", "12:30", "-", "---", "...", "- a", "a: b",
           "a #b", "#", "[]", "{}", "[a]", "{a}", "|", ">", "!x", "&a", "*a", "?", "? a", "@a", "`a", "%a", "'", '"', "''", " a",
           "a ", "  a", "\ta", "a\t", "a\n", "a\n\n", "\n", "\n\n", "\na", "\na\n", " a\n", "  a\n b\n", "a\n b\n", "a\n\n b\n",
           "a\nb", "a\n  \n", " \n", "a \n", "a\t\n", "\ta\n", "é\n", "a\\n", "a\\", "\\", "a\"b", "a'b", "key", "a.b", "a-b",
           "a_b", "a b", "a=b", "a.b.c", "[x]", "[[x]]", "x]", "\x00", "\x1f", "\x7f", "\x80", "\x9f", "\u2028\n", "\ufeffa",
           "\U0010ffff", "\ud7ff\ue000"]
H_TOML_KEYS = ["a", "b", "c", "A", "Z9", "0", "1", "-", "_", "a-b", "a_b", "a.b", "a b", "", " ", "é", "a\"b", "a\\b", "a\nb", "\t",
               "\x00", "\x7f", "[a]", "a=b", "#", "'", "\U0001f600", "true", "1e3", "1.5", "k" * 40]


def gen_h_str(rng, keyish=False):
    r = rng.random()
    if r < 0.3:
        return rng.choice(H_WORDS)
    if keyish and r < 0.55:
        return rng.choice(YAML_KEYS)
    if r < 0.6:
        return gen_str(rng, keyish)
    s = "".join(rng.choice(H_STR_PIECES) for _ in range(rng.choice([1, 2, 2, 3, 4, 6])))
    return s + ("\n" if rng.random() < 0.3 else "")


def gen_h_val(rng, depth, null_p=0.08):
    """values for the YAML writer: empty containers at every position, strings of every block-scalar shape"""
    r = rng.random()
    if depth <= 0 or r < 0.4:
        k = rng.random()
        if k < null_p:
            return None
        if k < 0.2:
            return rng.random() < 0.5
        if k < 0.4:
            return gen_num(rng)
        if k < 0.5:
            return rng.choice([[], Obj([])])
        return gen_h_str(rng)
    n = rng.choice([0, 1, 1, 2, 2, 3, 4])
    if r < 0.7:
        return [gen_h_val(rng, depth - 1, null_p) for _ in range(n)]
    keys = []
    while len(keys) < n:
        k = gen_h_str(rng, True)
        if k not in keys:
            keys.append(k)
    return Obj([(rng.random() < 0.1, k, gen_h_val(rng, depth - 1, null_p)) for k in keys])


def gen_toml_key(rng, used):
    while True:
        r = rng.random()
        k = rng.choice(H_TOML_KEYS) if r < 0.7 else (gen_h_str(rng, True) if r < 0.85 else gen_str(rng, True))
        if k not in used:
            used.append(k)
            return k


def gen_toml_inline(rng, depth, null_p):
    """a value in inline position (scalars, inline arrays / tables)"""
    r = rng.random()
    if depth <= 0 or r < 0.55:
        k = rng.random()
        if k < null_p:
            return None
        if k < 0.25:
            return rng.random() < 0.5
        if k < 0.3:
            return rng.choice(TOML_BOUNDARY)
        if k < 0.55:
            return gen_num(rng)
        return gen_h_str(rng)
    n = rng.choice([0, 1, 2, 3])
    if r < 0.8:
        return [gen_toml_inline(rng, depth - 1, null_p) for _ in range(n)]
    used = []
    return Obj([(rng.random() < 0.1, gen_toml_key(rng, used), gen_toml_inline(rng, depth - 1, null_p)) for _ in range(n)])


def gen_toml_table(rng, depth, null_p=0.0):
    """an object whose fields are plain values, sub-tables, arrays of tables (also empty tables, arrays mixing tables
    and scalars, arrays of empty tables, empty arrays, nested arrays)"""
    n = rng.choice([0, 1, 2, 3, 4, 5]) if depth > 0 else rng.choice([0, 1, 2])
    used = []
    fields = []
    for _ in range(n):
        k = gen_toml_key(rng, used)
        r = rng.random()
        if depth > 0 and r < 0.25:
            v = gen_toml_table(rng, depth - 1, null_p)
        elif depth > 0 and r < 0.45:
            v = [gen_toml_table(rng, depth - 1, null_p) for _ in range(rng.choice([1, 1, 2, 3]))]
            if rng.random() < 0.25:   # arrays mixing tables and other values: inline
                v.insert(rng.randrange(len(v) + 1), gen_toml_inline(rng, 1, null_p))
        elif r < 0.5:
            v = rng.choice([[], Obj([]), [Obj([])], [[]], [Obj([]), Obj([])], [[Obj([])]]])
        else:
            v = gen_toml_inline(rng, 2, null_p)
        fields.append((rng.random() < 0.08, k, v))
    return Obj(fields)


def has_null(v):
    if v is None:
        return True
    if isinstance(v, list):
        return any(has_null(x) for x in v)
    if isinstance(v, Obj):
        return any(has_null(x) for h, k, x in v.fields if not h)
    return False


def block_shape_ok(s):
    """a string ending in a newline whose `|` block scalar a YAML parser reads back (when the document goes on with a
    line break): printable content without other line-break characters, a last line that is not empty, and a first
    non-empty line that does not start with a space (the indentation of the scalar is detected from that line)"""
    body = s[:-1]
    for c in body:
        o = ord(c)
        if c != "\n" and c != "\t" and (o < 0x20 or 0x7F <= o <= 0x9F or c in "\u2028\u2029\ufeff\ufffe\uffff"):
            return False
    ls = body.split("\n")
    if ls[-1] == "":
        return False
    first = [l for l in ls if l != ""][0]
    return not first.startswith(" ")


def yaml_judgeable(v):
    """None if PyYAML cannot judge the document, else 'plain' / 'block' (some string is emitted as a block scalar)"""
    kind = "plain"

    def go(x, is_key=False):
        nonlocal kind
        if isinstance(x, str):
            if any(c in x for c in "\ufffe\uffff\u2028\u2029"):
                return False
            if x.endswith("\n") and not is_key:
                if not block_shape_ok(x):
                    return False
                kind = "block"
            return True
        if isinstance(x, list):
            return all(go(y) for y in x)
        if isinstance(x, Obj):
            return all(go(k, True) and go(y) for h, k, y in x.fields if not h)
        return True

    return kind if go(v) else None


H_YAML_FIXED = [
    "a\n", "a\nb\n", "\n", "a\n\n", " a\n", "a\n b\n", [["a\n"]], ["a\n", "b"], Obj([(False, "k", "a\nb\n"), (False, "l", 1.0)]),
    Obj([(False, "k", ["a\n", Obj([(False, "x", "b\n"), (False, "y", ["c\n"])])])]),
    [], Obj([]), [[]], [Obj([])], Obj([(False, "a", [])]), Obj([(False, "a", Obj([]))]), [[[]], [Obj([])]],
    Obj([(False, "a", [[], Obj([]), [[]], [Obj([(False, "b", [])])]]), (False, "b", Obj([(False, "c", Obj([(False, "d", [1.0])]))]))]),
    [Obj([(False, "a", 1.0), (False, "b", [Obj([(False, "c", 2.0), (False, "d", [3.0, [4.0]])])])]), [[1.0, 2.0], [3.0]]],
    Obj([(False, "on", "on"), (False, "1e3", "1e3"), (False, "a b", "~"), (True, "hid", "x"), (False, "-", [None, True, False, -0.0])]),
    [None, [None], Obj([(False, "n", None)])], "null", "", " ", "- a", "a: b", "é", "\x00\x1f\x7f\x85\u2028",
]
H_TOML_FIXED = [
    Obj([]), Obj([(False, "a", 1.0)]), Obj([(False, "a", Obj([]))]), Obj([(False, "a", [Obj([])])]), Obj([(False, "a", [])]),
    Obj([(False, "a", Obj([(False, "b", Obj([(False, "c", Obj([]))]))]))]),
    Obj([(False, "a", Obj([(False, "b", Obj([(False, "c", 1.0)])), (False, "z", "s")])), (False, "b", 2.0), (False, "c", [Obj([(False, "x", 1.0)]), Obj([])])]),
    Obj([(False, "a", [Obj([(False, "b", [Obj([(False, "c", [Obj([(False, "d", 1.0)])])])])]), Obj([(False, "b", [Obj([])])])])]),
    Obj([(False, "m", [Obj([(False, "x", 1.0)]), 2.0]), (False, "n", [1.0, Obj([(False, "x", [1.0, [2.0, Obj([(False, "y", [])])]])])])]),
    Obj([(False, "a.b", Obj([(False, "c d", Obj([(False, "", [Obj([(False, "\"", "\\")])])]))])), (False, "é", Obj([(False, "k", True)]))]),
    Obj([(False, "arr", [[1.0, 2.0], ["a", ["b", []]], [Obj([]), Obj([(False, "k", [])])]]), (False, "s", "a\nb\n"), (False, "t", Obj([(False, "u", [[Obj([])]])]))]),
    Obj([(False, "a", None)]), Obj([(False, "a", Obj([(False, "b", [1.0, None])]))]), Obj([(False, "a", [Obj([(False, "b", None)])])]),
    Obj([(True, "h", None), (False, "a", 1.0)]), Obj([(False, "a", [Obj([(True, "h", None)])]), (True, "t", Obj([]))]),
    [], None, 1.0, "s", [Obj([])], True,
    # the 64-bit boundary of TOML integers: magnitudes >= 2^63 are written as floats (`digits.0`)
    Obj([(False, "a", 2.0 ** 63), (False, "b", -2.0 ** 63), (False, "c", 9223372036854774784.0), (False, "d", -9223372036854774784.0),
         (False, "e", 2.0 ** 63 + 2048), (False, "f", 1e19), (False, "g", -1e300), (False, "h", 1.7976931348623157e308),
         (False, "i", float(2 ** 53)), (False, "j", 9.2e18), (False, "k", 9.3e18), (False, "l", 1e18), (False, "m", 18446744073709551616.0)]),
    Obj([(False, "t", Obj([(False, "x", [2.0 ** 63, [-1e19, Obj([(False, "y", 1e22)])]]), (False, "u", Obj([(False, "z", -2.0 ** 64)]))])),
         (False, "a", [Obj([(False, "n", 1e20)]), Obj([(False, "n", 9223372036854774784.0)])])]),
]
TOML_BOUNDARY = [2.0 ** 63, -2.0 ** 63, 9223372036854774784.0, -9223372036854774784.0, 2.0 ** 63 + 2048, 1e19, 1e20, -1e21, 9.2e18,
                 9.3e18, 2.0 ** 64, 1e300, -1.7976931348623157e308, 9223372036854775000.0, 9223372036854776000.0]


def h_line(impl_line):
    """model request for an implementation request of this section (`json yamldoc ..` -> `yaml yamldoc ..`)"""
    w = impl_line.split(" ")
    return " ".join([("toml" if w[1].startswith("toml") else "yaml")] + w[1:])


def yaml_toml_section(rep, rng, quick):
    n = 700 if quick else 8000
    cases = []

    def add(line, v, kind, flags=None):
        cases.append({"key": line, "v": v, "kind": kind, "flags": flags})

    # --- YAML documents: every flag combination and the defaults
    yvals = list(H_YAML_FIXED) + [gen_h_val(rng, rng.choice([1, 2, 3, 3, 4])) for _ in range(n)]
    for i, v in enumerate(yvals):
        fls = ["00", "01", "10", "11", "-"] if i < len(H_YAML_FIXED) else [rng.choice(["00", "01", "10", "11", "-"])]
        for fl in fls:
            add("json yamldoc %s %s" % (fl, wire(v)), v, "yamldoc", fl)
    for k in YAML_KEYS + H_WORDS:
        add("json yamldoc 00 " + wire(Obj([(False, k, k)])), Obj([(False, k, k)]), "yamldoc", "00")
        v = [Obj([(False, k, [k, Obj([(False, k, Obj([(False, k, [[k]])]))])])])]
        add("json yamldoc %s %s" % (rng.choice(["00", "10"]), wire(v)), v, "yamldoc", "00")
    # --- YAML streams
    svals = [[], [[]], ["a\n", "b\n"], [None], 1.0, Obj([]), ["x", ["y"], Obj([(False, "k", "v\n")])]]
    svals += [[gen_h_val(rng, rng.choice([0, 1, 2, 3])) for _ in range(rng.choice([1, 1, 2, 3, 4]))] for _ in range(n // 4)]
    for i, v in enumerate(svals):
        fls = (["000", "010", "111", "-"] if i < 7 else
               [rng.choice(["-"] + ["%d%d%d" % (a, b, c) for a in (0, 1) for b in (0, 1) for c in (0, 1)])])
        for fl in fls:
            add("json yamlstream %s %s" % (fl, wire(v)), v, "yamlstream", fl)
    # --- TOML: tables; a share with nulls (error outcome) and non-objects
    tvals = list(H_TOML_FIXED)
    for _ in range(n):
        r = rng.random()
        if r < 0.85:
            tvals.append(gen_toml_table(rng, rng.choice([1, 2, 2, 3])))
        elif r < 0.97:
            tvals.append(gen_toml_table(rng, rng.choice([1, 2, 3]), null_p=0.1))
        else:
            tvals.append(gen_h_val(rng, 1))
    for i, v in enumerate(tvals):
        inds = ["", "  ", "\t", "0"] if i < len(H_TOML_FIXED) else [rng.choice(["", " ", "  ", "    ", "\t", "  ", "0"])]
        for ind in inds:
            if ind == "0":
                add("json toml0 " + wire(v), v, "toml", "  ")
            else:
                add("json toml %s %s" % (vlib.hx(ind), wire(v)), v, "toml", ind)

    ilines = [c["key"] for c in cases]
    mlines = [h_line(l) for l in ilines]
    io = vlib.impl(ilines)
    mo = vlib.model(mlines)
    for c, il, ml, a, b in zip(cases, ilines, mlines, io, mo):
        v, kind = c["v"], c["kind"]
        nt = nontrivial(v) or (isinstance(v, str) and "\n" in v)
        rep.count(il, nt, sample={"request": il[:160], "impl": a[:160]} if nt and rng.random() < 0.003 else None)
        rep.bump("H-" + kind)
        replay = {"op": il, "mop": ml, "impl": a[:1500], "model": b[:1500]}
        if a != b:
            rep.disagreement(il, "%s: implementation and model differ" % kind, replay)
        w = a.split(" ")
        # ---- direct oracles on the implementation's answer
        if kind == "toml":
            want = "err notobject" if not isinstance(v, Obj) else ("err null" if has_null(v) else "ok")
            rep.bump("H-toml-" + want.replace(" ", "-"))
            if want != "ok":
                if a != want:
                    rep.disagreement(il, "TOML writer outcome %r, expected %r" % (a[:60], want), replay)
                continue
            if w[0] != "ok":
                rep.violation("toml-fails:" + il, "std.manifestTomlEx failed on a null-free object: " + a[:100], replay)
                continue
            text = vlib.unhx(w[1]).decode("utf-8")
            bad = oracle_toml(text, expected(v)) if tomllib is not None else None
            if bad:
                rep.violation("toml:" + il, "toml output: " + bad, replay)
            continue
        if kind == "yamlstream" and not isinstance(v, list):
            if a != "err notarray":
                rep.disagreement(il, "YAML stream of a non-array: %r" % a[:60], replay)
            continue
        if w[0] != "ok":
            rep.violation("yaml-fails:" + il, "YAML manifestation of a JSON-representable value failed: " + a[:100], replay)
            continue
        if yaml is None:
            continue
        text = vlib.unhx(w[1]).decode("utf-8")
        j = yaml_judgeable(v)
        if j is None:
            rep.bump("H-yaml-differential-only")
            continue
        if kind == "yamlstream":
            if not v:
                continue          # one empty document, as upstream (see assumptions)
            bad = oracle_yaml(text, expected(v), stream=True)
        else:
            # a block scalar at the very end of the text keeps its final line break only if the text goes on
            # (as it does in a stream, in a file written by the CLI with its trailing newline)
            bad = oracle_yaml(text + "\n" if j == "block" else text, expected(v))
        rep.bump("H-yaml-oracle-" + j)
        if bad and j == "plain":
            rep.violation(violation_key("yaml", {"key": il, "v": v}, bad), "yaml output: " + bad, replay)
        elif bad:
            # strings ending in a newline are outside the property's quantifier: recorded as a broken tie
            rep.disagreement(il, "block scalar not read back by PyYAML: " + bad, replay)


def run_cli(args, src):
    import os
    import subprocess
    os.makedirs(vlib.TMP, exist_ok=True)
    path = os.path.join(vlib.TMP, "c05_%d.jsonnet" % os.getpid())
    with open(path, "w", encoding="utf-8") as f:
        f.write(src)
    p = subprocess.run([vlib.CLI_BIN] + args + [path], stdout=subprocess.PIPE, stderr=subprocess.PIPE, timeout=60)
    return p.returncode, p.stdout, p.stderr


def inherited_batch(rep, rng, n):
    """Objects that come out of `+` after BOTH operands were inspected (length, field list, equality, manifestation —
    whatever caches an implementation keeps on them): the emitted document must show exactly the fields whose final
    visibility is not hidden (a `:` over `::` stays hidden, `:::` re-exposes), with the values of the upper layer."""
    VIS = [(None, ":", True), (None, "::", False), (None, ":::", True), ("::", ":", False), ("::", ":::", True),
           (":", "::", False), (":::", ":", True), (":::", "::", False), (":", ":::", True), (":", ":", True), ("::", "::", False)]
    TOUCH = ["std.length(%s)", "std.objectFields(%s)", "std.objectFieldsAll(%s)", "%s == %s", "std.toString(%s)", "std.objectHas(%s, 'a')"]
    jobs = []
    for _ in range(n):
        names = rng.sample(["a", "b", "c", "d", "e"], rng.randrange(1, 5))
        plan = [(nm, gen_val(rng, 1), rng.choice(VIS)) for nm in names]
        lower = ", ".join("%s%s %s" % (vlib.jsonnet_str(nm), lo, jsonnet_src(gen_val(rng, 1))) for nm, fv, (lo, up, vis) in plan if lo)
        upper = ", ".join("%s%s %s" % (vlib.jsonnet_str(nm), up, jsonnet_src(fv)) for nm, fv, (lo, up, vis) in plan)
        def touch(v):
            t = rng.choice(TOUCH)
            return t % ((v,) * t.count("%s"))
        pre = rng.choice(["", "lo", "up", "both", "both"])
        touches = ([touch("lo")] if pre in ("lo", "both") else []) + ([touch("up")] if pre in ("up", "both") else [])
        src = "local lo = {%s}, up = {%s}; local seen = [%s]; if std.length(std.toString(seen)) >= 0 then lo + up" % (lower, upper, ", ".join(touches))
        exp = Obj([(not vis, nm, fv) for nm, fv, (lo, up, vis) in plan])
        jobs.append((src, exp, pre))
    outs = vlib.impl([vlib.eval_line(src) for src, _, _ in jobs])
    for (src, exp, pre), a in zip(jobs, outs):
        rep.bump("inherited-visibility:" + (pre or "untouched"))
        rep.count("inh " + src, pre == "both")
        w = a.split(" ")
        if w[0] != "ok":
            rep.violation("inh " + src, "manifestation of an inheritance result failed: " + a[:120], {"src": src, "impl": a[:300]})
            continue
        bad = oracle_json(vlib.unhx(w[1]).decode("utf-8"), expected(exp))
        if bad:
            rep.violation("inh " + src, "inheritance result (operands inspected first: %s): %s" % (pre or "no", bad), {"src": src, "impl": a[:400]})


def cli_batch(rep, rng, n):
    """default output, `-y` and `-m` of the real CLI binary, decoded with the JSON oracle"""
    import os
    import shutil
    for i in range(n):
        mode = ["default", "yaml", "multi"][i % 3]
        if mode == "default":
            v = gen_val(rng, rng.choice([1, 2, 3]))
            src = jsonnet_src(v)
            rc, out, err = run_cli([], src)
            key = "cli-default " + wire(v)
            rep.count(key, nontrivial(v))
            rep.bump("cli-default")
            replay = {"cli": [], "src": src, "stdout": out.decode("utf-8", "replace")[:1000], "stderr": err.decode("utf-8", "replace")[:300]}
            if rc != 0:
                rep.violation(key, "CLI failed on a JSON-representable value (rc=%s)" % rc, replay)
                continue
            text = out.decode("utf-8")
            bad = None if text.endswith("\n") else "no trailing newline"
            bad = bad or oracle_json(text, expected(v))
            if bad:
                rep.violation(key, "default output: " + bad, replay)
        elif mode == "yaml":
            docs = [gen_val(rng, 2) for _ in range(rng.randrange(0, 4))]
            src = jsonnet_src(docs)
            rc, out, err = run_cli(["-y"], src)
            key = "cli-yaml " + wire(docs)
            rep.count(key, len(docs) >= 2)
            rep.bump("cli-yaml-stream")
            replay = {"cli": ["-y"], "src": src, "stdout": out.decode("utf-8", "replace")[:1000], "stderr": err.decode("utf-8", "replace")[:300]}
            if rc != 0:
                rep.violation(key, "CLI -y failed (rc=%s)" % rc, replay)
                continue
            text = out.decode("utf-8")
            bad = None
            if not docs:
                bad = None if text == "" else "empty stream is not empty output"
            else:
                if not (text.startswith("---\n") and text.endswith("\n...\n")):
                    bad = "stream framing"
                else:
                    items = text[4:-5].split("\n---\n")
                    if len(items) != len(docs):
                        bad = "wrong number of documents (%d for %d)" % (len(items), len(docs))
                    else:
                        for it, d in zip(items, docs):
                            bad = bad or oracle_json(it, expected(d))
            if bad:
                rep.violation(key, "YAML-stream item: " + bad, replay)
        else:
            names = rng.sample(["a.json", "b", "c.txt", "d1", "e_2", "f-3"], rng.randrange(1, 5))
            # every way a top-level field gets its final visibility (own marker, or inherited through `+`):
            # (lower layer marker or None, upper layer marker, visible in the result)
            VIS = [(None, ":", True), (None, "::", False), (None, ":::", True), ("::", ":", False), ("::", ":::", True),
                   (":", "::", False), (":::", ":", True), (":::", "::", False), (":", ":::", True)]
            plan = [(nm, gen_val(rng, 2), rng.choice(VIS) if i or rng.random() < 0.5 else (None, ":", True)) for i, nm in enumerate(names)]
            lower = ", ".join("%s%s %s" % (vlib.jsonnet_str(nm), lo, jsonnet_src(gen_val(rng, 1))) for nm, fv, (lo, up, vis) in plan if lo)
            upper = ", ".join("%s%s %s" % (vlib.jsonnet_str(nm), up, jsonnet_src(fv)) for nm, fv, (lo, up, vis) in plan)
            src = "{%s} + {%s}" % (lower, upper)
            files = [(nm, fv) for nm, fv, (lo, up, vis) in plan if vis]
            hidden = [nm for nm, fv, (lo, up, vis) in plan if not vis]
            d = os.path.join(vlib.TMP, "c05_multi_%d" % os.getpid())
            shutil.rmtree(d, ignore_errors=True)
            os.makedirs(d)
            rc, out, err = run_cli(["-m", d], src)
            key = "cli-multi " + src
            rep.count(key, bool(hidden) or any(lo for nm, fv, (lo, up, vis) in plan))
            rep.bump("cli-multi")
            replay = {"cli": ["-m", "<dir>"], "src": src, "stdout": out.decode("utf-8", "replace")[:500], "stderr": err.decode("utf-8", "replace")[:300]}
            if rc != 0:
                rep.violation(key, "CLI -m failed (rc=%s)" % rc, replay)
            else:
                for nm, fv in files:
                    try:
                        text = open(os.path.join(d, nm), encoding="utf-8").read()
                    except Exception as e:  # noqa
                        rep.violation(key, "multi-file output %s missing: %s" % (nm, e), replay)
                        continue
                    bad = oracle_json(text, expected(fv))
                    if bad:
                        rep.violation(key, "multi-file output %s: %s" % (nm, bad), replay)
                for nm in hidden:
                    if os.path.exists(os.path.join(d, nm)):
                        rep.violation(key, "multi-file output wrote a file for the hidden field %s" % nm, replay)
                listed = sorted(x for x in out.decode("utf-8", "replace").split("\n") if x)
                want = sorted(os.path.join(d, nm) for nm, fv in files)
                if listed != want:
                    rep.violation(key, "multi-file output lists %r, the visible fields are %r" % (listed, want), replay)
            shutil.rmtree(d, ignore_errors=True)


def regenerate_table(rep):
    """RsjModel/EscapeTable.lean is re-derived from manifest.rs before the proofs are rebuilt; a failure is a
    broken tie, recorded so that the differential run and the oracles still look for a failing input"""
    import os
    import sys
    sys.path.insert(0, os.path.join(vlib.VERIF, "tools"))
    try:
        import extract_escape_table
    except Exception as e:  # noqa
        rep.broken_tie("tools/extract_escape_table.py cannot be imported", repr(e))
        return
    try:
        extract_escape_table.main_write()
    except extract_escape_table.ExtractError as e:
        rep.broken_tie("extract_escape_table: cannot derive the escape table from manifest.rs", str(e))


def violation_key(kind, c, bad):
    v = c["v"]
    if kind in ("yaml", "yamlstream") and "unacceptable character" in bad:
        m = re.search(r"#x([0-9a-f]{4})", bad)
        return "yaml-unprintable-raw:" + (m.group(1) if m else "?")
    return "%s:%s" % (kind, c["key"])


def replay(r):
    rp = r["replay"]
    if set(rp.keys()) == {"src", "impl"}:
        vlib.build_harness()
        a = vlib.impl([vlib.eval_line(rp["src"])])[0]
        print("source:", rp["src"][:1000])
        print("impl  :", a[:400])
        print("recorded failing answer:", rp["impl"][:400])
        return 1 if a[:400] == rp["impl"][:400] else 0
    if "cli" in rp:
        vlib.build_cli()
        args = [a for a in rp["cli"] if a != "<dir>"]
        if "-m" in args:
            print("multi-file case: re-run by hand: rsjsonnet -m <dir> on the source below")
            print(rp["src"])
            return 1
        rc, out, err = run_cli(args, rp["src"])
        print("source:", rp["src"][:1000])
        print("rc    :", rc)
        print("stdout:", repr(out.decode("utf-8", "replace"))[:2000])
        return 1
    line = rp.get("op")
    if line is None:
        k = rp["case"]["key"]
        line = ("json manifest " + k) if "fmt" in rp["case"] else ("json " + k)
    vlib.build_harness()
    a = vlib.impl([line])[0]
    b = vlib.model([rp.get("mop", line)])[0]
    print("request:", line[:2000])
    print("impl   :", a[:2000])
    print("model  :", b[:2000])
    w = line.split(" ")
    if w[1] == "parse":
        try:
            print("text   :", repr(vlib.unhx(w[2]).decode("utf-8"))[:600])
        except Exception:
            pass
        return 1 if canon_parse_answer(a) != canon_parse_answer(b) else 0
    if a.startswith("ok ") and w[1] in ("manifest", "yamldoc", "yamlstream", "toml", "toml0"):
        try:
            print("text   :", repr(vlib.unhx(a.split(" ")[1]).decode("utf-8"))[:1200])
        except Exception:
            pass
    if w[1] == "reparse":
        return 0 if a == "ok t" else 1
    return 1 if (a != b or r.get("kind") == "failing-input") else 0
