"""C15 — parsing honours precedence and is stable under print / re-parse.

Protocol (driver op `parse`):
  implementation  `parse src <hex>`   -> `tokens=<toks> ast=<tree>` | `tokens=.. err=..` | `tokens=.. fault=..` | `lexerr=K`
                  `parse toks <toks>` -> `ast=..` | `err=..` | `fault=..`
  model           `parse toks <toks>` -> same answers
                  `parse print <tree> <min|full>` -> `toks=<toks> text=<hex>`
"""
import glob
import os
import subprocess
import sys

import vlib

# ---------------------------------------------------------------------------------------
# The Jsonnet precedence table, written down independently of the implementation and of
# the Lean model (reference for the direct oracle on operator sequences).
PREC = {"*": 9, "/": 9, "%": 9, "+": 8, "-": 8, "<<": 7, ">>": 7, "<": 6, ">": 6, "<=": 6, ">=": 6, "in": 6,
        "==": 5, "!=": 5, "&": 4, "^": 3, "|": 2, "&&": 1, "||": 0}
OPNAME = {"*": "Mul", "/": "Div", "%": "Rem", "+": "Add", "-": "Sub", "<<": "Shl", ">>": "Shr", "<": "Lt",
          ">": "Gt", "<=": "Le", ">=": "Ge", "in": "In", "==": "Eq", "!=": "Ne", "&": "BitwiseAnd",
          "^": "BitwiseXor", "|": "BitwiseOr", "&&": "LogicAnd", "||": "LogicOr"}
BINOPS = list(PREC)
UNOPS = {"-": "Minus", "+": "Plus", "~": "BitwiseNot", "!": "LogicNot"}

KEYWORDS = {"assert", "else", "error", "false", "for", "function", "if", "import", "importstr", "importbin",
            "in", "local", "null", "tailstrict", "then", "self", "super", "true"}


# ---------------------------------------------------------------------------------------
# Generic trees in the canonical notation `Label@s:e(kid,kid,...)`
class N:
    __slots__ = ("label", "span", "kids")

    def __init__(self, label, kids=(), span=None):
        self.label = label
        self.kids = list(kids)
        self.span = span

    def ser(self, spans=False):
        out = []
        stack = [self]
        # iterative (trees from the corpus can be 10000 deep)
        while stack:
            x = stack.pop()
            if isinstance(x, str):
                out.append(x)
                continue
            out.append(x.label)
            if spans and x.span is not None:
                out.append("@%d:%d" % x.span)
            if x.kids:
                out.append("(")
                items = [")"]
                for i, k in enumerate(reversed(x.kids)):
                    items.append(k)
                    if i != len(x.kids) - 1:
                        items.append(",")
                stack.extend(items)
        return "".join(out)

    def head(self):
        return self.label.split(".", 1)[0]


def read_tree(s):
    """Parse canonical notation (iteratively)."""
    i = 0
    n = len(s)
    root = None
    stack = []
    while i < n:
        c = s[i]
        if c == ",":
            i += 1
            continue
        if c == ")":
            stack.pop()
            i += 1
            continue
        j = i
        while j < n and s[j] not in "@(),":
            j += 1
        label = s[i:j]
        span = None
        if j < n and s[j] == "@":
            k = j + 1
            while k < n and s[k] not in "(),":
                k += 1
            a, b = s[j + 1:k].split(":")
            span = (int(a), int(b))
            j = k
        node = N(label, [], span)
        if stack:
            stack[-1].kids.append(node)
        else:
            root = node
        if j < n and s[j] == "(":
            stack.append(node)
            j += 1
        i = j
    return root


def erase(t):
    """Forget spans and Paren nodes (iteratively)."""
    def strip(x):
        while x.label == "Paren":
            x = x.kids[0]
        return x
    t = strip(t)
    root = N(t.label, [])
    work = [(t, root)]
    while work:
        src, dst = work.pop()
        for k in src.kids:
            k = strip(k)
            d = N(k.label, [])
            dst.kids.append(d)
            work.append((k, d))
    return root


def count_nodes(t, pred):
    c = 0
    work = [t]
    while work:
        x = work.pop()
        if pred(x):
            c += 1
        work.extend(x.kids)
    return c


EXPR_HEADS = {"Null", "True", "False", "Self", "Dollar", "Str", "Tb", "Num", "Paren", "Object", "Array",
              "ArrayComp", "Field", "Index", "Slice", "SuperField", "SuperIndex", "Call", "CallTs", "Ident",
              "Local", "If", "Bin", "Un", "ObjExt", "Func", "Assert", "Import", "ImportStr", "ImportBin",
              "Error", "InSuper"}
OPERATOR_HEADS = {"Bin", "Un", "Field", "Index", "Slice", "Call", "CallTs", "ObjExt", "InSuper"}


# ---------------------------------------------------------------------------------------
# Random trees (all node kinds)
def hx(s):
    return vlib.hx(s)


IDENTS = ["a", "b", "c", "x", "y", "foo", "std", "_z1", "iff", "selfish", "E2"]
STRINGS = ["", "s", "a b", "q\"uo'te", "back\\slash", "nl\nx", "t\tb", "é€😀", "|||", "/*", "\x01\x1f", "$"]
BLOCKS = ["x\n", "line one\nline two\n", "a\n\nb\n", "no newline", "é\n  indented\n", "a |||\n"]
NUMBERS = [("0", 0), ("1", 0), ("15", -1), ("25", 3), ("05", -1), ("000", -2), ("123456789", 0), ("1", -30),
           ("9", 400), ("10", 0)]


class Gen:
    def __init__(self, rng):
        self.rng = rng

    def ident(self):
        return hx(self.rng.choice(IDENTS))

    def idnode(self, tag="Id"):
        return N("%s.%s" % (tag, self.ident()))

    def split(self, budget, parts):
        """Split budget >= parts into `parts` positive integers."""
        cuts = [1] * parts
        for _ in range(max(0, budget - parts)):
            cuts[self.rng.randrange(parts)] += 1
        return cuts

    def leaf(self):
        r = self.rng.random()
        if r < 0.35:
            return N("Ident." + self.ident())
        if r < 0.55:
            d, e = self.rng.choice(NUMBERS)
            return N("Num.%s_%d" % (hx(d), e))
        if r < 0.65:
            return N("Str." + hx(self.rng.choice(STRINGS)))
        if r < 0.70:
            return N("Tb." + hx(self.rng.choice(BLOCKS)))
        if r < 0.75:
            return N("SuperField", [N("Sp"), self.idnode()])
        return N(self.rng.choice(["Null", "True", "False", "Self", "Dollar"]))

    def opt(self, budget, p=0.5):
        if budget >= 1 and self.rng.random() < p:
            return self.expr(budget)
        return N("None")

    def params(self, budget):
        n = self.rng.randrange(0, 4)
        ps = []
        for _ in range(n):
            if budget > 1 and self.rng.random() < 0.4:
                b = self.rng.randrange(1, max(2, budget // 2))
                budget -= b
                ps.append(N("Param", [self.idnode(), self.expr(b)]))
            else:
                ps.append(N("Param", [self.idnode(), N("None")]))
        return ps

    def bind(self, budget):
        if self.rng.random() < 0.3:
            return N("Bind", [self.idnode(), N("Params", self.params(budget // 2)), self.expr(max(1, budget // 2))])
        return N("Bind", [self.idnode(), N("None"), self.expr(budget)])

    def binds(self, budget, lo=1, hi=3):
        n = self.rng.randrange(lo, hi + 1)
        if n == 0:
            return []
        cuts = self.split(max(budget, n), n)
        return [self.bind(c) for c in cuts]

    def assert_(self, budget):
        if budget >= 2 and self.rng.random() < 0.5:
            a, b = self.split(budget, 2)
            return N("Asrt", [self.expr(a), self.expr(b)])
        return N("Asrt", [self.expr(budget), N("None")])

    def spec(self, budget):
        n = self.rng.randrange(1, 4)
        cuts = self.split(max(budget, n), n)
        out = []
        for i, c in enumerate(cuts):
            if i == 0 or self.rng.random() < 0.5:
                out.append(N("For", [self.idnode(), self.expr(c)]))
            else:
                out.append(N("IfSpec", [self.expr(c)]))
        return out

    def field_name(self, budget):
        r = self.rng.random()
        if r < 0.5:
            return self.idnode("FnId")
        if r < 0.75:
            return N("FnStr." + hx(self.rng.choice(STRINGS)))
        return N("FnExpr", [self.expr(budget)])

    def field(self, budget):
        vis = self.rng.choice("dhv")
        if self.rng.random() < 0.25:
            return N("FF." + vis, [self.field_name(1), N("Params", self.params(budget // 2)),
                                   self.expr(max(1, budget // 2))])
        plus = self.rng.choice("pn")
        return N("FV.%s%s" % (vis, plus), [self.field_name(max(1, budget // 3)), self.expr(max(1, budget - 1))])

    def obj_inside(self, budget):
        if budget >= 3 and self.rng.random() < 0.25:
            cuts = self.split(budget, 5)
            l1 = self.binds(cuts[0], 0, 2)
            l2 = self.binds(cuts[3], 0, 2)
            return N(self.rng.choice(["Comp", "CompPlus"]),
                     [N("L", l1), self.expr(cuts[1]), self.expr(cuts[2]), N("L", l2), N("L", self.spec(cuts[4]))])
        n = self.rng.randrange(0, 4) if budget >= 1 else 0
        ms = []
        if n:
            for c in self.split(max(budget, n), n):
                r = self.rng.random()
                if r < 0.2:
                    ms.append(self.bind(c))
                elif r < 0.35:
                    ms.append(self.assert_(c))
                else:
                    ms.append(self.field(c))
        return N("Members", ms)

    def args(self, budget):
        n = self.rng.randrange(0, 4)
        if n == 0:
            return []
        out = []
        for c in self.split(max(budget, n), n):
            if self.rng.random() < 0.3:
                out.append(N("Named", [self.idnode(), self.expr(c)]))
            else:
                out.append(N("Pos", [self.expr(c)]))
        return out

    def expr(self, budget):
        rng = self.rng
        if budget <= 1:
            return self.leaf()
        b = budget - 1
        r = rng.random()
        if r < 0.30:
            x, y = self.split(max(b, 2), 2)
            return N("Bin." + OPNAME[rng.choice(BINOPS)], [self.expr(x), self.expr(y)])
        if r < 0.38:
            return N("Un." + rng.choice(list(UNOPS.values())), [self.expr(b)])
        if r < 0.43:
            return N("Paren", [self.expr(b)])
        if r < 0.48:
            return N("Field", [self.expr(b), self.idnode()])
        if r < 0.52:
            x, y = self.split(max(b, 2), 2)
            return N("Index", [self.expr(x), self.expr(y)])
        if r < 0.58:
            cuts = self.split(max(b, 4), 4)
            i1, i2, i3 = (self.opt(cuts[1]), self.opt(cuts[2]), self.opt(cuts[3]))
            return N("Slice", [self.expr(cuts[0]), i1, i2, i3])
        if r < 0.64:
            x, y = self.split(max(b, 2), 2)
            return N(rng.choice(["Call", "Call", "CallTs"]), [self.expr(x)] + self.args(y))
        if r < 0.68:
            x, y = self.split(max(b, 2), 2)
            return N("ObjExt", [self.expr(x), self.obj_inside(y), N("Sp")])
        if r < 0.71:
            return N("InSuper", [self.expr(b), N("Sp")])
        if r < 0.73:
            return N("SuperIndex", [N("Sp"), self.expr(b)])
        if r < 0.78:
            return N("Object", [self.obj_inside(b)])
        if r < 0.82:
            n = rng.randrange(0, 4)
            return N("Array", [self.expr(c) for c in self.split(max(b, n), n)] if n else [])
        if r < 0.85:
            x, y = self.split(max(b, 2), 2)
            return N("ArrayComp", [self.expr(x)] + self.spec(y))
        if r < 0.89:
            x, y = self.split(max(b, 2), 2)
            return N("Local", [N("L", self.binds(x)), self.expr(y)])
        if r < 0.93:
            cuts = self.split(max(b, 3), 3)
            return N("If", [self.expr(cuts[0]), self.expr(cuts[1]), self.opt(cuts[2], 0.6)])
        if r < 0.95:
            x, y = self.split(max(b, 2), 2)
            return N("Func", [N("L", self.params(x)), self.expr(y)])
        if r < 0.97:
            x, y = self.split(max(b, 2), 2)
            return N("Assert", [self.assert_(x), self.expr(y)])
        return N(rng.choice(["Import", "ImportStr", "ImportBin", "Error", "Error"]), [self.expr(b)])


# ---------------------------------------------------------------------------------------
# Answers
def split_answer(a):
    """-> dict with tokens / ast / err / fault / lexerr / other"""
    d = {}
    for part in a.split(" "):
        if "=" in part:
            k, v = part.split("=", 1)
            d[k] = v
        else:
            d.setdefault("other", part)
    return d


def read_tokens(s):
    if s == "-":
        return []
    out = []
    for t in s.split(","):
        k, a, b = t.split(":")
        out.append((k, int(a), int(b)))
    return out


def show_tokens(toks):
    return ",".join("%s:%d:%d" % t for t in toks) if toks else "-"


def actual_of(kind):
    c = kind[0]
    if c == "E":
        return "Eof"
    if c in "SOI":
        return kind
    return {"N": "Number", "T": "String", "B": "TextBlock"}[c]


FIRST_TOK = {"Paren": "SLeftParen", "Object": "SLeftBrace", "Array": "SLeftBracket", "ArrayComp": "SLeftBracket",
             "SuperField": "SSuper", "SuperIndex": "SSuper", "Local": "SLocal", "If": "SIf", "Func": "SFunction",
             "Assert": "SAssert", "Import": "SImport", "ImportStr": "SImportstr", "ImportBin": "SImportbin",
             "Error": "SError", "Null": "SNull", "True": "STrue", "False": "SFalse", "Self": "SSelf_",
             "Dollar": "SDollar", "Asrt": "SAssert", "Params": "SLeftParen", "FnExpr": "SLeftBracket"}
LAST_TOK = {"Paren": "SRightParen", "Object": "SRightBrace", "Array": "SRightBracket", "ArrayComp": "SRightBracket",
            "SuperIndex": "SRightBracket", "Index": "SRightBracket", "Slice": "SRightBracket",
            "ObjExt": "SRightBrace", "InSuper": "SSuper", "Call": "SRightParen", "CallTs": "STailstrict",
            "Params": "SRightParen", "FnExpr": "SRightBracket"}
UN_TOK = {"Minus": "SMinus", "Plus": "SPlus", "BitwiseNot": "STilde", "LogicNot": "SExclam"}
LEAF_KIND = {"Str": "T", "Tb": "B", "Num": "N", "Ident": "I", "Id": "I", "FnId": "I"}


def span_oracle(tree, toks):
    """Direct check of the span claims on an implementation AST (tokens from the implementation's lexer).
    Returns None or a description."""
    starts = {}
    ends = {}
    real = [t for t in toks if t[0] != "E"]
    for i, (k, a, b) in enumerate(real):
        starts.setdefault(a, (i, k))
        ends[b] = (i, k)
    if not real:
        return "no tokens"
    if tree.span != (real[0][1], real[-1][2]):
        return "root span %r is not (first token start, last token end) = %r" % (tree.span, (real[0][1], real[-1][2]))
    work = [(tree, None)]
    while work:
        x, parent = work.pop()
        sp = x.span
        if sp is not None:
            a, b = sp
            if a > b:
                return "inverted span %r at %s" % (sp, x.label)
            if a not in starts or b not in ends:
                return "span %r of %s does not start/end at a token boundary" % (sp, x.label)
            ia, ka = starts[a]
            ib, kb = ends[b]
            if ia > ib:
                return "span %r of %s: first token after last token" % (sp, x.label)
            h = x.head()
            if h in FIRST_TOK and ka != FIRST_TOK[h]:
                return "%s starts at token %s" % (x.label, ka)
            if h in LAST_TOK and kb != LAST_TOK[h]:
                return "%s ends at token %s" % (x.label, kb)
            if h == "Un" and ka != UN_TOK[x.label.split(".")[1]]:
                return "%s starts at token %s" % (x.label, ka)
            if h in LEAF_KIND and (ia != ib or ka[0] != LEAF_KIND[h]):
                return "leaf %s covers tokens %d..%d (%s)" % (x.label, ia, ib, ka)
            if h in ("FnStr",) and (ia != ib or ka[0] not in "TB"):
                return "leaf %s covers tokens %d..%d (%s)" % (x.label, ia, ib, ka)
            if parent is not None and not (parent[0] <= a and b <= parent[1]):
                return "span %r of %s is not inside its parent's span %r" % (sp, x.label, parent)
            # first/last child alignment for forms that start (end) with a subexpression
            ek = [k for k in x.kids if k.span is not None and k.head() in EXPR_HEADS]
            if h in ("Bin", "Field", "Index", "Slice", "Call", "CallTs", "ObjExt", "InSuper") and ek:
                if ek[0].span[0] != a:
                    return "%s does not start where its first operand starts" % x.label
            if h in ("Bin", "Un", "Local", "Func", "Assert", "Import", "ImportStr", "ImportBin", "Error") and ek:
                if ek[-1].span[1] != b:
                    return "%s does not end where its last operand ends" % x.label
            if h == "If":
                last = [k for k in x.kids if k.label != "None"][-1]
                if last.span[1] != b:
                    return "If does not end where its last branch ends"
            if h == "Asrt":
                last = [k for k in x.kids if k.label != "None"][-1]
                if last.span[1] != b:
                    return "assert does not end where its last operand ends"
            if h == "Field" and x.kids[1].span[1] != b:
                return "Field does not end at its name"
            # children with spans are ordered and disjoint
            prev = None
            for k in x.kids:
                if k.span is None or k.label.startswith("Sp"):
                    continue
                if prev is not None and k.span[0] < prev:
                    return "children of %s overlap / are out of order" % x.label
                prev = k.span[1]
            nsp = sp
        else:
            nsp = parent
        for k in x.kids:
            work.append((k, nsp))
    return None


def error_oracle(err, toks):
    """`err` = "s:e;expected;actual": the span is the span of a token of the input whose kind is `actual`."""
    sp, ex, act = err.split(";")
    a, b = (int(v) for v in sp.split(":"))
    hits = [k for (k, s, e) in toks if (s, e) == (a, b)]
    if not hits:
        return "error span %s is not the span of any token" % sp
    if not any(actual_of(k) == act for k in hits):
        return "error names token %s but the token at %s is %s" % (act, sp, hits)
    if ex == "-":
        return "empty expected set"
    return None


# ---------------------------------------------------------------------------------------
# Reference grouping of an operator sequence (independent precedence climbing)
def ref_group(operands, ops):
    """operands: list of trees, ops: list of operator texts -> tree, using PREC, all left associative."""
    pos = [0]

    def climb(minp):
        lhs = operands[pos[0]]
        while pos[0] < len(ops) and PREC[ops[pos[0]]] >= minp:
            op = ops[pos[0]]
            pos[0] += 1
            rhs = climb(PREC[op] + 1)
            lhs = N("Bin." + OPNAME[op], [lhs, rhs])
        return lhs
    return climb(0)


def I(name):
    return N("Ident." + hx(name))


def NUM(d):
    return N("Num.%s_0" % hx(d))


DECOR = [
    ("%s", lambda x: x),
    ("-%s", lambda x: N("Un.Minus", [x])),
    ("!%s", lambda x: N("Un.LogicNot", [x])),
    ("~ +%s", lambda x: N("Un.BitwiseNot", [N("Un.Plus", [x])])),
    ("%s.f", lambda x: N("Field", [x, N("Id." + hx("f"))])),
    ("%s[0]", lambda x: N("Index", [x, NUM("0")])),
    ("-%s.f(1)", lambda x: N("Un.Minus", [N("Call", [N("Field", [x, N("Id." + hx("f"))]), N("Pos", [NUM("1")])])])),
    ("%s(1) tailstrict", lambda x: N("CallTs", [x, N("Pos", [NUM("1")])])),
    ("%s{}", lambda x: N("ObjExt", [x, N("Members"), N("Sp")])),
    ("%s[1:2]", lambda x: N("Slice", [x, NUM("1"), NUM("2"), N("None")])),
    ("(%s)", lambda x: x),
    ("!%s[::]{}", lambda x: N("Un.LogicNot", [N("ObjExt", [N("Slice", [x, N("None"), N("None"), N("None")]),
                                                              N("Members"), N("Sp")])])),
]

SLICE_LAYOUTS = [  # (text after `a`, i1, i2, i3) — every path of parse_index_expr, `::` adjacent and spaced
    ("[:]", 0, 0, 0), ("[: :]", 0, 0, 0), ("[: : z]", 0, 0, 1), ("[: y]", 0, 1, 0), ("[: y :]", 0, 1, 0),
    ("[: y : z]", 0, 1, 1), ("[::]", 0, 0, 0), ("[:: z]", 0, 0, 1), ("[x :]", 1, 0, 0), ("[x : :]", 1, 0, 0),
    ("[x : : z]", 1, 0, 1), ("[x : y]", 1, 1, 0), ("[x : y :]", 1, 1, 0), ("[x : y : z]", 1, 1, 1),
    ("[x ::]", 1, 0, 0), ("[x :: z]", 1, 0, 1),
]

IN_SUPER_CASES = [
    ("a in super", N("InSuper", [I("a"), N("Sp")])),
    ("a + b in super", N("InSuper", [N("Bin.Add", [I("a"), I("b")]), N("Sp")])),
    ("a < b in super", N("InSuper", [N("Bin.Lt", [I("a"), I("b")]), N("Sp")])),
    ("a == b in super", N("Bin.Eq", [I("a"), N("InSuper", [I("b"), N("Sp")])])),
    ("a in super in b", N("Bin.In", [N("InSuper", [I("a"), N("Sp")]), I("b")])),
    ("a in super in super", N("InSuper", [N("InSuper", [I("a"), N("Sp")]), N("Sp")])),
    ("a in super.f", N("Bin.In", [I("a"), N("SuperField", [N("Sp"), N("Id." + hx("f"))])])),
    ("a in super[1]", N("Bin.In", [I("a"), N("SuperIndex", [N("Sp"), NUM("1")])])),
    ("a in super == b", N("Bin.Eq", [N("InSuper", [I("a"), N("Sp")]), I("b")])),
    ("a in super < b", N("Bin.Lt", [N("InSuper", [I("a"), N("Sp")]), I("b")])),
    ("-a in super", N("InSuper", [N("Un.Minus", [I("a")]), N("Sp")])),
    ("a in super + b", None),     # syntax error at `+`
    ("a in super * b", None),
    ("a in super {}", None),
    ("a in super (1)", None),
]


# ---------------------------------------------------------------------------------------
def impl(lines):
    """vlib.impl, tolerating the short window in which another check's `cargo build` relinks the
    shared harness binary."""
    import time
    for attempt in range(60):
        try:
            return vlib.impl(lines)
        except OSError:
            time.sleep(2)
    return vlib.impl(lines)


def run_extractor():
    p = subprocess.run([sys.executable, os.path.join(vlib.VERIF, "tools", "extract_precedence.py")],
                       stdout=subprocess.PIPE, stderr=subprocess.STDOUT)
    if p.returncode != 0:
        raise vlib.BrokenTie("tools/extract_precedence.py: parse_expr no longer has the modelled shape",
                             p.stdout.decode("utf-8", "replace")[-2000:])


def check_src_cases(rep, cases, label):
    """cases: dicts with key, src (bytes), optional expect (erased tree string or 'ERR'), optional ltoks
    (token string predicted by the Lean layout).  Runs implementation + model, applies all oracles."""
    lines = ["parse src " + vlib.hx(c["src"]) for c in cases]
    io = impl(lines)
    mlines = []
    midx = []
    for i, (c, a) in enumerate(zip(cases, io)):
        d = split_answer(a)
        c["impl"] = d
        if "tokens" in d:
            midx.append(i)
            mlines.append("parse toks " + d["tokens"])
    mo = vlib.model(mlines) if mlines else []
    for i, b in zip(midx, mo):
        cases[i]["model"] = b
    for c, a in zip(cases, io):
        d = c["impl"]
        key = c["key"]
        replay = {"kind": "src", "hex": vlib.hx(c["src"]), "expect": c.get("expect")}
        rep.bump(label)
        if a.startswith("panic") or a.startswith("crash") or a == "bad-op":
            rep.violation(key, "implementation driver failure on parse: " + a[:200], replay)
            continue
        if "lexerr" in d:
            rep.bump(label + ":lexerr")
            if c.get("expect") not in (None, "ANY"):
                rep.disagreement(key, "printed text does not lex: " + a[:100], replay)
            continue
        toks = read_tokens(d["tokens"])
        if c.get("ltoks") is not None and c["ltoks"] != d["tokens"]:
            rep.disagreement(key, "Lean layout tokens differ from the implementation's lexer", dict(replay, ltoks=c["ltoks"][:500], itoks=d["tokens"][:500]))
        if "fault" in d:
            rep.violation(key, "parser panicked on lexer output: " + d["fault"], replay)
        elif "ast" in d:
            rep.bump(label + ":ok")
            t = read_tree(d["ast"])
            bad = span_oracle(t, toks)
            if bad:
                rep.violation(key, "span claim fails: " + bad, replay)
            exp = c.get("expect")
            if exp == "ERR":
                rep.violation(key, "text that must be a syntax error was accepted", replay)
            elif exp not in (None, "ANY"):
                got = erase(t).ser()
                if got != exp:
                    rep.violation(key, "re-parsed tree differs from the printed tree: got %s" % got[:300], replay)
        elif "err" in d:
            rep.bump(label + ":err")
            bad = error_oracle(d["err"], toks)
            if bad:
                rep.violation(key, "error claim fails: " + bad, replay)
            exp = c.get("expect")
            if exp not in (None, "ANY", "ERR"):
                rep.violation(key, "printed tree does not re-parse: " + d["err"], replay)
        # model vs implementation on the same tokens
        m = c.get("model")
        want = a.split(" ", 1)[1] if " " in a else a
        if m is not None and m != want:
            rep.disagreement(key, "%s: implementation and model differ" % label,
                             dict(replay, impl=want[:1500], model=m[:1500]))


def gen_tree_cases(rep, n, max_size):
    g = Gen(rep.rng)
    trees = []
    for i in range(n):
        size = rep.rng.randrange(1, max_size + 1) if i % 3 else rep.rng.randrange(max(1, max_size // 2), max_size + 1)
        trees.append(g.expr(size))
    return trees


def print_and_check(rep, trees, label, count=True):
    """Print every tree in both modes with the Lean printer, re-parse with the implementation."""
    plines = []
    for t in trees:
        s = t.ser()
        plines.append("parse print %s min" % s)
        plines.append("parse print %s full" % s)
    po = vlib.model(plines)
    cases = []
    for i, t in enumerate(trees):
        exp = erase(t).ser()
        nontriv = count_nodes(t, lambda x: x.head() in OPERATOR_HEADS) >= 2
        for j, mode in enumerate(("min", "full")):
            a = po[2 * i + j]
            d = split_answer(a)
            key = "%s:%s:%s" % (label, mode, t.ser())
            if "text" not in d:
                rep.bump(label + ":unprintable")
                if label != "corpus-reprint":
                    rep.disagreement(key, "Lean printer rejected a generated tree: " + a[:100],
                                     {"kind": "tree", "tree": t.ser(), "mode": mode})
                continue
            src = vlib.unhx(d["text"])
            if count:
                rep.count(key, nontriv, sample={"tree": t.ser()[:300], "mode": mode,
                                                "text": src.decode("utf-8", "replace")[:300]} if nontriv else None)
            cases.append({"key": key, "src": src, "expect": exp, "ltoks": d["toks"]})
    check_src_cases(rep, cases, label)
    # minimal and full text must denote the same tree (direct, implementation only)
    by = {}
    for c in cases:
        base = c["key"].split(":", 2)[2]
        if "ast" in c["impl"]:
            by.setdefault(base, []).append(erase(read_tree(c["impl"]["ast"])).ser())
    for base, v in by.items():
        if len(v) == 2 and v[0] != v[1]:
            rep.violation("fullparen:" + base, "text and its fully parenthesised form parse to different trees",
                          {"kind": "tree", "tree": base})


def operator_cases(rep, thorough):
    rng = rep.rng
    cases = []
    names = ["a", "b", "c", "d"]

    def mk(ops, decs):
        texts, trees = [], []
        for nm, (fmt, f) in zip(names, decs):
            texts.append(fmt % nm)
            trees.append(f(I(nm)))
        src = texts[0]
        for op, t in zip(ops, texts[1:]):
            src += " %s %s" % (op, t)
        exp = ref_group(trees, ops)
        return {"key": "ops:" + src, "src": src.encode(), "expect": erase(exp).ser()}

    plain = DECOR[0]
    for o1 in BINOPS:
        for o2 in BINOPS:
            cases.append(mk([o1, o2], [plain] * 3))
            cases.append(mk([o1, o2], [rng.choice(DECOR) for _ in range(3)]))
    if thorough:
        for o1 in BINOPS:
            for o2 in BINOPS:
                for o3 in BINOPS:
                    cases.append(mk([o1, o2, o3], [plain] * 4))
                    cases.append(mk([o1, o2, o3], [rng.choice(DECOR) for _ in range(4)]))
    else:
        for _ in range(3000):
            ops = [rng.choice(BINOPS) for _ in range(3)]
            cases.append(mk(ops, [rng.choice(DECOR) for _ in range(4)]))
    for c in cases:
        rep.count(c["key"], True)
    check_src_cases(rep, cases, "operators")

    cases = []
    for lay, h1, h2, h3 in SLICE_LAYOUTS:
        for lhs_fmt, lhs_f in (DECOR[0], DECOR[4], DECOR[5]):
            for (x, y, z) in (("x", "y", "z"), ("x+1", "y*2", "-z"), ("if p then q", "local v = 1; v", "function() 0")):
                body = lay.replace("x", "\0").replace("y", "\1").replace("z", "\2")
                body = body.replace("\0", x).replace("\1", y).replace("\2", z)
                src = (lhs_fmt % "a") + body
                cases.append({"key": "slice:" + src, "src": src.encode(), "expect": "ANY", "layout": (h1, h2, h3)})
    for c in cases:
        rep.count(c["key"], True)
    check_src_cases(rep, cases, "slices")
    for c in cases:
        d = c["impl"]
        if "ast" not in d:
            rep.violation(c["key"], "slice layout rejected: " + str(d)[:200], {"kind": "src", "hex": vlib.hx(c["src"])})
            continue
        t = erase(read_tree(d["ast"]))
        pres = tuple(0 if k.label == "None" else 1 for k in t.kids[1:4]) if t.label == "Slice" else None
        if pres != c["layout"]:
            rep.violation(c["key"], "slice operands land in the wrong positions: %r, expected %r" % (pres, c["layout"]),
                          {"kind": "src", "hex": vlib.hx(c["src"])})

    cases = []
    for src, exp in IN_SUPER_CASES:
        cases.append({"key": "insuper:" + src, "src": src.encode(), "expect": erase(exp).ser() if exp else "ERR"})
    for c in cases:
        rep.count(c["key"], True)
    check_src_cases(rep, cases, "insuper")


def mutate_tokens(rng, toks, pool):
    toks = [t for t in toks]
    n = rng.randrange(1, 4)
    for _ in range(n):
        r = rng.random()
        if r < 0.4 and len(toks) > 1:
            del toks[rng.randrange(len(toks) - 1)]
        elif r < 0.8:
            toks.insert(rng.randrange(len(toks)), rng.choice(pool))
        elif len(toks) > 1:
            toks[rng.randrange(len(toks) - 1)] = rng.choice(pool)
    r = rng.random()
    if r < 0.03:
        toks = toks[:-1]                       # no EOF at the end
    elif r < 0.06:
        toks.insert(rng.randrange(len(toks)), "E")   # EOF in the middle
    elif r < 0.07:
        toks = []
    return toks


def malformed_cases(rep, base_tokens, n):
    """Token-level mutations of printed trees, run through `parse toks` on both sides."""
    rng = rep.rng
    pool = ["S" + k for k in ("Plus", "Minus", "Asterisk", "LeftParen", "RightParen", "LeftBracket", "RightBracket",
                               "LeftBrace", "RightBrace", "Comma", "Colon", "ColonColon", "ColonColonColon", "Dot",
                               "Semicolon", "Eq", "EqEq", "In", "Super", "If", "Then", "Else", "Local", "For",
                               "Function", "Assert", "Tailstrict", "Error", "Import", "PlusColon", "Exclam", "Tilde",
                               "Dollar", "Self_", "Null", "PipePipe", "AmpAmp", "Lt", "LtLt")]
    pool += ["I" + hx("x"), "I" + hx("y"), "N%s_0" % hx("1"), "T" + hx("s"), "B" + hx("t\n"), "O" + hx("=>"),
             "O" + hx("<=>")]
    cases = []
    for _ in range(n):
        kinds = [t[0] for t in rng.choice(base_tokens)]
        kinds = mutate_tokens(rng, kinds, pool)
        toks = [(k, 3 * i, 3 * i + 2 if k != "E" else 3 * i) for i, k in enumerate(kinds)]
        cases.append({"key": "malformed:" + show_tokens(toks), "toks": toks})
    lines = ["parse toks " + show_tokens(c["toks"]) for c in cases]
    io = impl(lines)
    mo = vlib.model(lines)
    for c, a, b in zip(cases, io, mo):
        rep.bump("malformed")
        replay = {"kind": "toks", "toks": show_tokens(c["toks"])}
        d = split_answer(a)
        nontriv = "err" in d
        rep.count(c["key"], nontriv, sample={"toks": show_tokens(c["toks"])[:300], "impl": a[:200]} if nontriv else None)
        ends_ok = bool(c["toks"]) and c["toks"][-1][0] == "E" and all(t[0] != "E" for t in c["toks"][:-1])
        if a.startswith("panic") or a.startswith("crash") or a == "bad-op":
            rep.violation(c["key"], "implementation driver failure: " + a[:200], replay)
        elif "fault" in d:
            rep.bump("malformed:fault")
            if ends_ok:
                rep.violation(c["key"], "parser panicked on an EOF-terminated token list: " + d["fault"], replay)
        elif "err" in d:
            rep.bump("malformed:err")
            bad = error_oracle(d["err"], c["toks"])
            if bad:
                rep.violation(c["key"], "error claim fails: " + bad, replay)
        elif "ast" in d:
            rep.bump("malformed:ok")
            bad = span_oracle(read_tree(d["ast"]), c["toks"])
            if bad:
                rep.violation(c["key"], "span claim fails: " + bad, replay)
        if a != b:
            rep.disagreement(c["key"], "malformed tokens: implementation and model differ",
                             dict(replay, impl=a[:1500], model=b[:1500]))


def corpus_files():
    fs = sorted(glob.glob("/repo/ui-tests/**/*.jsonnet", recursive=True))
    fs += sorted(glob.glob("/repo/ui-tests/**/*.libsonnet", recursive=True))
    fs.append("/repo/rsjsonnet-lang/src/program/std.libsonnet")
    return [f for f in fs if os.path.isfile(f)]


def corpus_cases(rep, reprint_limit):
    cases = []
    for f in corpus_files():
        try:
            src = open(f, "rb").read()
        except OSError:
            continue
        cases.append({"key": "corpus:" + f, "src": src, "expect": None})
    for c in cases:
        rep.count(c["key"], len(c["src"]) > 40)
    check_src_cases(rep, cases, "corpus")
    # real-world trees printed back by the Lean printer and re-parsed
    trees = []
    for c in cases:
        d = c["impl"]
        if "ast" in d and len(d["ast"]) < reprint_limit:
            trees.append(erase(read_tree(d["ast"])))
    print_and_check(rep, trees, "corpus-reprint", count=False)


def run(rep):
    rep.rule = ("random syntax trees over every node kind of ast.rs (size <= 25 quick / <= 80 thorough), each printed by "
                "the Lean printer with minimal and with full parentheses and re-parsed by the implementation; operator "
                "pairs (all 19x19) and triples (sampled quick / all 19^3 thorough) with unary / postfix decorations "
                "against an independent precedence table; all 16 token layouts of the slice grammar; `in super` "
                "boundary cases; token-level deletions / insertions / replacements (incl. missing and misplaced EOF) "
                "for the error path; every .jsonnet under /repo/ui-tests and std.libsonnet. Non-trivial = at least two "
                "operator / postfix nodes (trees), every operator sequence, an actual syntax error (malformed); "
                "distinct by printed text / token list")
    rep.assumptions = ["token spans are ordered as produced by the lexer (the model answers bad-token-spans otherwise)",
                       "model fuel 50*tokens+100 suffices (outOfFuel would show up as a disagreement)",
                       "source text <-> token list is the lexer's business (C14); the model parses token lists"]
    try:
        run_extractor()
    except vlib.BrokenTie as e:
        # the tie is broken (recorded); the search for a failing input below still runs
        rep.broken_tie(e.what, e.detail)
    vlib.prelude(rep, extra_modules=['RsjProps.C15NoFault'])
    thorough = rep.tier == "thorough"

    # 1. corpus
    corpus_cases(rep, 200000 if thorough else 60000)
    # 2. operator sequences, slices, in super
    operator_cases(rep, thorough)
    # 3. random trees
    ntrees = 50000 if thorough else 6000
    max_size = 80 if thorough else 25
    base_tokens = []
    for start in range(0, ntrees, 2000):
        trees = gen_tree_cases(rep, min(2000, ntrees - start), max_size)
        print_and_check(rep, trees, "trees")
        if len(base_tokens) < 3000:
            po = vlib.model(["parse print %s min" % t.ser() for t in trees[:600]])
            for a in po:
                d = split_answer(a)
                if "toks" in d:
                    base_tokens.append(read_tokens(d["toks"]))
    # 4. malformed token lists
    malformed_cases(rep, base_tokens, 150000 if thorough else 12000)
    vlib.huge_token_probe(rep, ("parse",))


def replay(r):
    rp = r["replay"]
    vlib.build_harness()
    rc = 0
    if rp.get("kind") == "toks":
        line = "parse toks " + rp["toks"]
        a = vlib.impl([line])[0]
        b = vlib.model([line])[0]
        print("impl :", a)
        print("model:", b)
        d = split_answer(a)
        bad = None
        toks = read_tokens(rp["toks"])
        if "err" in d:
            bad = error_oracle(d["err"], toks)
        elif "ast" in d:
            bad = span_oracle(read_tree(d["ast"]), toks)
        print("oracle:", bad)
        return 1 if bad or a != b else 0
    if rp.get("kind") == "tree":
        tree = rp["tree"]
        outs = vlib.model(["parse print %s min" % tree, "parse print %s full" % tree])
        res = []
        for o in outs:
            d = split_answer(o)
            print("printed:", vlib.unhx(d.get("text", "-")).decode("utf-8", "replace"))
            a = vlib.impl(["parse src " + d.get("text", "-")])[0]
            print("impl :", a[:2000])
            da = split_answer(a)
            res.append(erase(read_tree(da["ast"])).ser() if "ast" in da else a)
        want = erase(read_tree(tree)).ser()
        print("want :", want)
        return 0 if all(x == want for x in res) else 1
    hexsrc = rp["hex"]
    a = vlib.impl(["parse src " + hexsrc])[0]
    print("source:", vlib.unhx(hexsrc).decode("utf-8", "replace")[:2000])
    print("impl :", a[:3000])
    d = split_answer(a)
    if "tokens" in d:
        b = vlib.model(["parse toks " + d["tokens"]])[0]
        print("model:", b[:3000])
        toks = read_tokens(d["tokens"])
        want = a.split(" ", 1)[1]
        if b != want:
            rc = 1
        if "ast" in d:
            bad = span_oracle(read_tree(d["ast"]), toks)
            print("span oracle:", bad)
            if bad:
                rc = 1
            exp = rp.get("expect")
            if exp == "ERR":
                rc = 1
            elif exp not in (None, "ANY"):
                got = erase(read_tree(d["ast"])).ser()
                print("expect:", exp)
                print("got   :", got)
                if got != exp:
                    rc = 1
        elif "err" in d:
            bad = error_oracle(d["err"], toks)
            print("error oracle:", bad)
            if bad or rp.get("expect") not in (None, "ANY", "ERR"):
                rc = 1
        elif "fault" in d:
            rc = 1
    return rc
