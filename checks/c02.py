"""C02 — the core language evaluates as the Jsonnet specification defines."""
import vlib
import gen_core as G
import core_cmp as C
from checks.c09 import walk, replace, get


def desugar_variants(rng, prog):
    """Spec-level equations applied at a random applicable node: (description, rewritten program)."""
    nodes = []
    walk(prog, False, [], nodes)
    out = []
    rng.shuffle(nodes)
    for path, _ in nodes:
        n = get(prog, path)
        k = n[0]
        if k == 'objext':
            out.append(('e{..} = e + {..}', replace(prog, list(path), ('binary', 'add', n[1], ('object', n[2])))))
        elif k == 'binary' and n[1] == 'ne':
            out.append(('a != b = !(a == b)', replace(prog, list(path), ('unary', 'lnot', ('binary', 'eq', n[2], n[3])))))
        elif k == 'if' and n[3] is None:
            out.append(('if c then a = if c then a else null', replace(prog, list(path), ('if', n[1], n[2], ('null',)))))
        elif k == 'local' and any(b[1] is not None for b in n[1]):
            nb = [(b[0], None, ('func', b[1], b[2])) if b[1] is not None else b for b in n[1]]
            out.append(('local f(x)=b = local f=function(x) b', replace(prog, list(path), ('local', nb, n[2]))))
        elif k == 'paren':
            out.append(('(e) = e', replace(prog, list(path), n[1])))
        elif k == 'binary' and n[1] in ('le', 'ge'):
            # a <= b  =  !(b < a) on orderable values is NOT a spec equation for errors; use a <= b = (a < b || a == b)? skip
            continue
        if len(out) >= 2:
            break
    return out


INTS = [0, 1, -1, 2, 3, 7, 10, 255, 256, 65535, 2 ** 31 - 1, 2 ** 31, 2 ** 32, 2 ** 52, 2 ** 53 - 2, 2 ** 53 - 1, -(2 ** 53 - 1), -(2 ** 53 - 2), 2 ** 53, -(2 ** 53)]


def wrap64(x):
    x &= (1 << 64) - 1
    return x - (1 << 64) if x >= (1 << 63) else x


def operator_tables(rep, rng):
    """Bitwise / shift / unary operators on boundary integers: Python integers are the reference."""
    SAFE = 2 ** 53 - 1
    cases = []
    pairs = [(a, b) for a in INTS for b in INTS]
    if rep.tier == 'quick':
        pairs = rng.sample(pairs, 160)
    for a, b in pairs:
        for op, sym in (('band', '&'), ('bor', '|'), ('bxor', '^'), ('shl', '<<'), ('shr', '>>')):
            if op in ('shl', 'shr'):
                b2 = rng.choice([0, 1, 2, 31, 52, 53, 62, 63, 64, 65, -1])
            else:
                b2 = b
            src = '(%d) %s (%d)' % (a, sym, b2)
            exp = None
            if abs(a) > SAFE or abs(b2) > SAFE:
                exp = 'err:NumberNotBitwiseSafe'
            elif op in ('shl', 'shr') and b2 < 0:
                exp = 'err:ShiftByNegative'
            elif op == 'band':
                exp = a & b2
            elif op == 'bor':
                exp = a | b2
            elif op == 'bxor':
                exp = a ^ b2
            elif op == 'shr':
                exp = a >> (b2 & 63)
            else:
                r = wrap64(a << (b2 & 63))
                exp = r if (r >> (b2 & 63)) == a else 'err:NumberNotBitwiseSafe'
            cases.append((src, exp))
    for a in INTS:
        cases.append(('~(%d)' % a, 'err:NumberNotBitwiseSafe' if abs(a) > SAFE else ~a))
    outs = [C.canon_impl(x) for x in vlib.impl([vlib.eval_line(s) for s, _ in cases])]
    for (src, exp), a in zip(cases, outs):
        rep.bump('operator-table')
        rep.count('c02op:' + src, True)
        want = 'ok ' + C.canon_json(float(exp)) if not isinstance(exp, str) else exp
        got = a if a.startswith('ok') else 'err:' + (a.split(' ')[2] if a.startswith('err eval') else a[:30])
        if got != want:
            rep.violation('c02op:' + src, 'operator table: %s should be %s, implementation answered %s' % (src, want, got[:80]),
                          {'src': src, 'impl': a, 'expected': want})


def slice_tables(rep, rng):
    """e[a:b:c] on strings (code points) and arrays, every sign of the bounds: Python's slicing on the list of
    code points / items is the reference (spec: std.slice; negative bounds count from the end, out-of-range
    bounds are clamped, step >= 1)."""
    import json
    STRS = ['', 'a', 'abc', 'héllo', 'aé😀b', '😀😀', 'éé', 'añb😀cé', 'xyzé', '日本語テキスト']
    cases = []
    n = 260 if rep.tier == 'quick' else 6000
    for _ in range(n):
        if rng.random() < 0.7:
            s = rng.choice(STRS)
            items, src0 = list(s), json.dumps(s, ensure_ascii=False)
        else:
            items = [rng.randrange(10) for _ in range(rng.randrange(0, 7))]
            src0 = json.dumps(items)
        L = len(items)
        def bound():
            r = rng.random()
            return None if r < 0.25 else rng.randrange(-L - 3, L + 4)
        a, b, c = bound(), bound(), rng.choice([None, None, 1, 2, 3, L + 1])
        form = rng.random()
        def t(x):
            return '' if x is None else str(x)
        if form < 0.5:
            src = '%s[%s:%s%s]' % (src0, t(a), t(b), '' if c is None and rng.random() < 0.5 else ':' + t(c))
        else:
            src = 'std.slice(%s, %s, %s, %s)' % (src0, 'null' if a is None else a, 'null' if b is None else b, 'null' if c is None else c)
        ref = items[slice(a, b, c)]
        want = ''.join(ref) if isinstance(src0, str) and src0.startswith('"') else ref
        cases.append((src, want))
    outs = [C.canon_impl(x) for x in vlib.impl([vlib.eval_line(sx) for sx, _ in cases])]
    for (src, want), a in zip(cases, outs):
        rep.bump('slice-table')
        rep.count('c02slice:' + src, ('-' in src))
        w = 'ok ' + C.canon_json([float(x) for x in want] if isinstance(want, list) else want)
        if a != w:
            rep.violation('c02slice:' + src, 'slice: %s should be %s, implementation answered %s' % (src, w[:80], a[:80]),
                          {'src': src, 'impl': a, 'expected': w})


NAMED_ARGS = ['null', 'true', '0', '1', '-1', '2.5', '3', '"a"', '"ab"', '"b"', '[]', '[1, 2]', '[2, 1]', '["a", "b"]', '{}', '{a: 1}', '{b: 2, a: 1}',
              'function(x) x', 'function(x, y) [x, y]', 'function(a, b) a', '"%s"', '" "', '[[1], [2]]', '[3, 1, 2]']


NAMED_CLASSES = [['0', '1', '-1', '2.5', '3', '7'], ['"a"', '"ab"', '"b"', '" "', '"ba"', '""'],
                 ['[]', '[1, 2]', '[2, 1]', '[3, 1, 2]', '[1]', '[[1], [2]]'], ['["a", "b"]', '["b"]', '["a"]', '[]'],
                 ['{}', '{a: 1}', '{b: 2, a: 1}', '{a: 2}']]


def named_calls(rep, rng):
    """A call by parameter names (in any order) binds like the positional call (spec: function application).
    Parameter names of the library functions: tools/std_param_names.json (as published by the pinned commit)."""
    import json
    import os
    try:
        names = json.load(open(os.path.join(vlib.VERIF, 'tools', 'std_param_names.json')))
    except Exception as e:  # noqa
        rep.broken_tie('tools/std_param_names.json cannot be read', repr(e))
        return
    jobs = []
    for f, ps in sorted(names.items()):
        if not ps or f in ('extVar', 'native', 'trace'):
            continue
        for rnd in range(4 if rep.tier == 'quick' else 16):
            # half of the calls draw all arguments from one type class (distinct values), so that functions of
            # several like-typed parameters (comparisons, string functions, set functions) get past their guards
            if rnd % 2 == 0 and len(ps) >= 2:
                cls = rng.choice(NAMED_CLASSES)
                args = rng.sample(cls, len(ps)) if len(cls) >= len(ps) else [rng.choice(cls) for _ in ps]
            else:
                args = [rng.choice(NAMED_ARGS) for _ in ps]
            pos = 'std.%s(%s)' % (f, ', '.join(args))
            order = list(range(len(ps)))
            rng.shuffle(order)
            named = 'std.%s(%s)' % (f, ', '.join('%s=%s' % (ps[i], args[i]) for i in order))
            k = rng.randrange(len(ps) + 1)
            mixed = 'std.%s(%s)' % (f, ', '.join(args[:k] + ['%s=%s' % (ps[i], args[i]) for i in sorted(range(k, len(ps)), key=lambda _: rng.random())]))
            jobs.append((f, pos, named, mixed))
    wrap = 'local r = (%s); if std.isFunction(r) then "function" else r'
    lines = []
    for f, pos, named, mixed in jobs:
        lines += [vlib.eval_line(wrap % pos, max_stack=500), vlib.eval_line(wrap % named, max_stack=500), vlib.eval_line(wrap % mixed, max_stack=500)]
    outs = [C.canon_impl(a) for a in vlib.impl(lines)]
    for i, (f, pos, named, mixed) in enumerate(jobs):
        a, b, c = outs[3 * i], outs[3 * i + 1], outs[3 * i + 2]
        rep.bump('named-call')
        rep.count('c02named:' + named, a.startswith('ok'))
        for form, o in ((named, b), (mixed, c)):
            if C.norm(a) != C.norm(o):
                rep.violation('c02named:' + form, 'call by parameter names differs from the positional call: %s gives %s, %s gives %s'
                              % (pos[:70], a[:60], form[:70], o[:60]), {'src': pos, 'src2': form, 'impl': a, 'impl2': o})
                break


# share of the programs that is also sent through the whole-pipeline model (op `pipe`), per tier
PIPE_SHARE = {'quick': 1.0, 'thorough': 1.0}


def run(rep):
    rep.rule = ("closed core programs generated as syntax trees (type-directed, mostly well-typed, with a share of "
                "type errors, explicit errors, asserts, std.trace), printed with minimal and with redundant "
                "parentheses/whitespace/comments; non-trivial = >= 8 syntax nodes and the program passed static "
                "analysis; distinct by source text")
    rep.assumptions = [
        "the Lean evaluator model is the hand transcription of the specification's semantics (trusted reading)",
        "model limitations answered `unsupported` (non-integer number to string, "
        "string formatting, import) are skipped and counted",
        "f64 arithmetic in the model is Lean's `Float` (IEEE binary64, same operations as Rust)",
        "error details that embed Rust float formatting are compared by kind only",
    ]
    vlib.prelude(rep, extra_modules=['RsjProps.C02Eval', 'RsjProps.C02Pipeline'])
    rng = rep.rng
    n = 4000 if rep.tier == 'quick' else 40000
    depth = 5 if rep.tier == 'quick' else 6
    gen = G.Gen(rng, max_depth=depth, allow_tailstrict=False)
    progs = [gen.program() for _ in range(n)]
    srcs, io, mo = C.run_pair(progs, max_stack=500, fuel=6000)
    # the same trees printed with redundant parentheses / whitespace: a source text means the same
    srcs2 = [G.to_jsonnet(p, rng, 0.15, True) for p in progs]
    io2 = [C.canon_impl(a) for a in vlib.impl([vlib.eval_line(s, max_stack=500, traces=1) for s in srcs2])]
    # the very source texts through the whole-pipeline model (Lean lexer + parser + lowering + analysis + evaluator):
    # implementation vs pipeline, and S-expression route vs source route (core_cmp.check_pipe)
    pshare = PIPE_SHARE.get(rep.tier, 1.0)
    C.check_pipe(rep, 'c02:', srcs, io, mo, max_stack=500, fuel=6000, share=pshare, label='generated, minimal parentheses')
    C.check_pipe(rep, 'c02ws:', srcs2, io2, mo, max_stack=500, fuel=6000, share=pshare, label='generated, redundant parentheses/whitespace/comments')
    # sources that exist only as text: hand-written corpus (every literal spelling, text blocks, rounding boundaries, `std`
    # rebound, tailstrict positions, static errors ...) and byte-level mutations of printed programs (malformed stream)
    C.pipe_directed(rep, 'c02', progs[:400], 1500 if rep.tier == 'quick' else 30000)
    for p, s, a, b, s2, a2 in zip(progs, srcs, io, mo, srcs2, io2):
        size = G.size(p)
        stage = 'analyze' if ' analyze ' in a else ('parse' if (' parse ' in a or ' lex ' in a) else a.split(' ')[0])
        rep.bump('impl:' + (a.split(' ')[2] if a.startswith('err eval') else stage))
        nontriv = size >= 8 and stage in ('ok', 'err')
        rep.count(s, nontriv, sample={'src': s[:300], 'impl': a[:160]} if nontriv else None)
        if a.startswith('panic') or a.startswith('crash'):
            rep.violation('c02:' + s, 'evaluation crashed: ' + a[:200], {'src': s, 'impl': a})
            continue
        if stage == 'parse':
            rep.disagreement('c02:' + s, 'generated program does not parse', {'src': s, 'impl': a})
            continue
        if C.norm(a) != C.norm(a2):
            rep.violation('c02paren:' + s2, 'redundant parentheses/whitespace changed the outcome',
                          {'src': s, 'src2': s2, 'impl': a, 'impl2': a2})
        if b.startswith('unsupported') or b.startswith('gas'):
            rep.bump('model:' + b.split(' ')[0])
            continue
        if C.norm(a) != C.norm(b):
            rep.disagreement('c02:' + s, 'implementation and specification model disagree',
                             {'src': s, 'sexp': G.to_sexp(p), 'impl': a, 'model': b})
    # late binding / forcing order: closed-form expected results (independent of the model), and the model
    lb = G.late_binding_cases(rng, 120 if rep.tier == 'quick' else 4000)
    lsrc, lio, lmo = C.run_pair([p for p, _ in lb], max_stack=500, fuel=6000, traces=False)
    C.check_pipe(rep, 'c02lb:', lsrc, lio, lmo, max_stack=500, fuel=6000, traces=False, label='late binding')
    for (p, exp), s, a, b in zip(lb, lsrc, lio, lmo):
        rep.bump('late-binding')
        rep.count(s, True)
        want = 'ok ' + C.canon_json(exp[1]) if exp[0] == 'ok' else 'err eval %s %s' % (exp[1], vlib.hx(exp[2]))
        if C.norm(a) != C.norm(want):
            rep.violation('c02lb:' + s, 'late binding: expected %s, implementation answered %s' % (want[:120], a[:120]),
                          {'src': s, 'impl': a, 'expected': want})
        if not (b.startswith('unsupported') or b.startswith('gas')) and C.norm(a) != C.norm(b):
            rep.disagreement('c02:' + s, 'implementation and specification model disagree',
                             {'src': s, 'sexp': G.to_sexp(p), 'impl': a, 'model': b})
    # operator tables against Python's arbitrary-precision integers / IEEE doubles
    operator_tables(rep, rng)
    slice_tables(rep, rng)
    named_calls(rep, rng)
    # specification equations checked directly on the implementation
    pairs = []
    for p in progs[: (400 if rep.tier == 'quick' else 8000)]:
        for desc, q in desugar_variants(rng, p):
            pairs.append((desc, p, q))
    lines = []
    for desc, p, q in pairs:
        lines.append(vlib.eval_line(G.to_jsonnet(p), max_stack=500, traces=1))
        lines.append(vlib.eval_line(G.to_jsonnet(q), max_stack=500, traces=1))
    outs = [C.canon_impl(a) for a in vlib.impl(lines)]
    # both sides of every equation through the pipeline model too (the sugared side exercises the lowering)
    C.check_pipe(rep, 'c02eq:', [vlib.unhx(l.split(' ')[1]).decode('utf-8') for l in lines], outs, None, max_stack=500, fuel=6000,
                 share=pshare, label='specification equations (both sides)')
    for i, (desc, p, q) in enumerate(pairs):
        a, b = outs[2 * i], outs[2 * i + 1]
        rep.bump('eq:' + desc)
        rep.evaluations += 1
        if 'StackOverflow' in a or 'StackOverflow' in b:
            continue
        if C.norm(a) != C.norm(b):
            rep.violation('c02eq:' + G.to_jsonnet(p), 'specification equation "%s" fails' % desc,
                          {'src': G.to_jsonnet(p), 'src2': G.to_jsonnet(q), 'impl': a, 'impl2': b})


def replay(r):
    vlib.build_harness()
    rp = r['replay']
    src = bytes.fromhex(rp['srchex']) if 'srchex' in rp else rp['src']
    a = C.canon_impl(vlib.impl([vlib.eval_line(src, max_stack=500, traces=1)])[0])
    print('impl :', a)
    bad = 0
    if 'src2' in rp:
        a2 = C.canon_impl(vlib.impl([vlib.eval_line(rp['src2'], max_stack=500, traces=1)])[0])
        print('impl2:', a2)
        bad |= C.norm(a) != C.norm(a2)
    if 'sexp' in rp:
        b = vlib.model(['core 500 6000 1 ' + rp['sexp']])[0]
        print('model:', b)
        bad |= C.norm(a) != C.norm(b)
    bad |= C.replay_pipe(rp, a)
    return 1 if bad else 0
