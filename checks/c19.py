"""C19 — std.format / the % operator follow printf-style formatting.

Protocol (see harness/src/ops_fmt.rs, lean/RsjModel/Format.lean):
  fmt render via=<fmt|pct> f=<val> arr v:<val>.. | obj k:<hexkey>=<val>.. | one v:<val> [H:..]
  fmt host <bits16> [F:<p>] [E:<p>] [D] [L] [S]      (implementation side only: plain Rust format!)
  fmt tostr <hexsrc>                                 (implementation side only)
The model answers `needhost <bits16> <query>` when it needs a host digit string that the
request does not carry; the check fetches it from the implementation side (plain Rust
`format!("{:.p$}")` etc.) and re-sends, so the model runs on exactly the digits Rust produced.
"""
import math
import re
import struct
import sys
from fractions import Fraction

import vlib

if hasattr(sys, "set_int_max_str_digits"):
    sys.set_int_max_str_digits(0)

TWO53 = 2 ** 53
U32 = 2 ** 32


def bits_of(x):
    return "%016x" % struct.unpack(">Q", struct.pack(">d", x))[0]


def float_of(b):
    return struct.unpack(">d", struct.pack(">Q", int(b, 16)))[0]


# ---------------------------------------------------------------- values

# "other" values: (type, jsonnet source, expected std.toString rendering)
OTHERS = [
    ("null", "null", "null"),
    ("boolean", "true", "true"),
    ("boolean", "false", "false"),
    ("array", "[]", "[ ]"),
    ("array", '[1, "a", [2]]', '[1, "a", [2]]'),
    ("object", "{}", "{ }"),
    ("object", '{a: 1, "b c": [true]}', '{"a": 1, "b c": [true]}'),
    ("array", '["\\u00e9\\u00e9"]', '["éé"]'),
]
# numbers whose std.toString rendering is known independently
NUMSTR = {bits_of(1.0): "1", bits_of(-1.5): "-1.5", bits_of(0.1): "0.1", bits_of(1234567.0): "1234567",
          bits_of(0.0): "0", bits_of(-7.0): "-7", bits_of(0.5): "0.5"}
RENDERED = {}  # src -> rendering obtained from the implementation (fmt tostr)

STRINGS = ["", "a", "abc", "éé", "日本語", "😀a", "a\nb", "%", "é", "😀", "x y", "ab"]

NUMS_INT = [0.0, -0.0, 1.0, -1.0, 7.0, 8.0, -8.0, 9.0, 10.0, 15.0, 16.0, 63.0, 64.0, 255.0, -255.0, 256.0, 1234567.0,
            -1234567.0, 2.0 ** 31, 2.0 ** 32 - 1, 2.0 ** 32, float(TWO53 - 1), float(TWO53), float(TWO53 + 2),
            -float(TWO53 - 1), 2.0 ** 63, 2.0 ** 64, -(2.0 ** 64), 1e15, 1e16, 1e17, 1e22, 1e23, 1e100, 1e308, -1e308,
            1.7976931348623157e308, 2.0 ** 70, 2.0 ** 1023]
NUMS_FRAC = [0.5, 1.5, 2.5, 3.5, -0.5, -1.5, -2.5, 0.125, 0.375, 0.625, 0.25, 0.75, 0.1, 0.3, 1.0 / 3, 2.675, 1.005, 0.045,
             9.5, 9.995, 99.5, 999999.5, 9999995.0, 0.0001234, 0.00001234, 9.9999e-5, 0.000099999999, 123456.789,
             -123456.789, 3.7, -3.7, 65.7, 0.99, 0.999999999, 1e-10, 1e-7, 1.5e-5, 5e-324, -5e-324,
             2.2250738585072014e-308, 2.225073858507201e-308, 4.9406564584124654e-323, 1e-300, 123456789.125,
             4503599627370496.5, 1e21 + 0.0, 0.000123456789, 123.456, 1e5, 1e6, 999999.0, 100000.0, 12345.678]
CODEPOINTS = [0.0, 65.0, 233.0, 0x1F600 * 1.0, 0xD7FF * 1.0, 0xD800 * 1.0, 0xDFFF * 1.0, 0xE000 * 1.0, 0x10FFFF * 1.0,
              0x110000 * 1.0, -1.0, 65.7, -0.5, 2.0 ** 32, 1e100, 0x3042 * 1.0]


def rand_num(rng):
    k = rng.random()
    if k < 0.35:
        return rng.choice(NUMS_INT)
    if k < 0.7:
        return rng.choice(NUMS_FRAC)
    if k < 0.8:
        # random integer of random magnitude
        e = rng.randrange(0, 1023)
        v = float(rng.getrandbits(53) | 1) * 2.0 ** (e - 52) if e >= 52 else float(rng.getrandbits(e + 1))
        return -v if rng.random() < 0.3 else v
    if k < 0.9:
        # tie at a random decimal position: k / 2^j
        j = rng.randrange(1, 12)
        v = (2 * rng.randrange(0, 4000) + 1) / 2.0 ** j
        return -v if rng.random() < 0.3 else v
    while True:
        b = rng.getrandbits(64)
        v = float_of("%016x" % b)
        if math.isfinite(v):
            return v


def safe_num(rng):
    """A number that is harmless if a random format consumes it as a `*` width/precision:
    its integer part is at most 70000 or does not fit u32 (then the code reports an error)."""
    while True:
        v = rand_num(rng)
        if abs(v) <= 70000 or abs(v) >= U32:
            return v


def vnum(x):
    return ["n", bits_of(x)]


def vstr(s):
    return ["s", s]


def vother(i):
    t, src, _ = OTHERS[i]
    return ["o", t, src]


def val_token(v):
    if v[0] == "n":
        return "n:" + v[1]
    if v[0] == "s":
        return "s:" + vlib.hx(v[1])
    return "o:%s:%s:%s" % (v[1], vlib.hx(v[2]), vlib.hx(RENDERED.get(v[2], "?")))


def case_line(c):
    parts = ["fmt render via=%s" % c["via"], "f=" + val_token(c["f"]), c["shape"]]
    if c["shape"] == "obj":
        for k, v in c["vals"]:
            parts.append("k:%s=%s" % (vlib.hx(k), val_token(v)))
    else:
        for v in c["vals"]:
            parts.append("v:" + val_token(v))
    return " ".join(parts)


# ---------------------------------------------------------------- printf grammar (independent of the model)

DIRECTIVE = re.compile(
    r"%(?:\(([^)]*)\))?([#0\- +]*)(\*|[0-9]+)?(?:\.(\*|[0-9]+))?([hlL])?([diuoxXeEfFgGcs%])", re.S)


def tokenize(fmt):
    """-> list of ('lit', s) | ('dir', {...}); None if the format string is malformed."""
    parts = []
    pos = 0
    while pos < len(fmt):
        i = fmt.find("%", pos)
        if i < 0:
            parts.append(("lit", fmt[pos:]))
            break
        if i > pos:
            parts.append(("lit", fmt[pos:i]))
        m = DIRECTIVE.match(fmt, i)
        if not m:
            return None
        key, flags, w, p, lm, conv = m.groups()
        if w not in (None, "*") and int(w) >= U32:
            return None
        if p not in (None, "*") and int(p) >= U32:
            return None
        parts.append(("dir", {"key": key, "flags": flags, "w": w, "p": p, "conv": conv}))
        pos = m.end()
    return parts


def trunc_of(v):
    return math.trunc(float_of(v[1]))


def star_value(v):
    """-> ('ok', n) | ('err',) | ('skip',)   for a `*` argument"""
    if v[0] != "n":
        return ("err",)
    t = trunc_of(v)
    if t < 0:
        return ("skip",)  # C: negative width = left-justify; the code reports an error (documented exclusion)
    if t >= U32:
        return ("err",)
    return ("ok", t)


def dedupe_flags(flags):
    out = ""
    for ch in flags:
        if ch not in out:
            out += ch
    return out


def py_directive(d, width, prec, v):
    """Expected text of one directive by Python's % operator.
    -> ('exact', s) | ('err',) | ('skip', reason) | ('shape', kind)"""
    conv = d["conv"]
    flags = dedupe_flags(d["flags"])
    spec = "%" + flags + (str(width) if d["w"] is not None else "") + (".%d" % prec if d["p"] is not None else "")
    if conv == "%":
        if d["w"] is not None:
            return ("skip", "%% with a width")
        return ("exact", "%")
    if conv in "diu":
        if v[0] != "n":
            return ("err",)
        t = trunc_of(v)
        if abs(t) >= TWO53:
            return ("shape", "bigdec")
        return ("exact", (spec + "d") % t)
    if conv in "oxX":
        if v[0] != "n":
            return ("err",)
        if conv == "o" and "#" in flags:
            # Python prints 0o; C: '#' raises the precision just enough to force a leading 0
            t = trunc_of(v)
            p2 = prec if d["p"] is not None else 0
            if t != 0:
                p2 = max(p2, len("%o" % abs(t)) + 1)
            spec2 = "%" + flags.replace("#", "") + (str(width) if d["w"] is not None else "")
            if t != 0 or d["p"] is not None:
                spec2 += ".%d" % p2
            return ("exact", (spec2 + "o") % t)
        return ("exact", (spec + conv) % trunc_of(v))
    if conv in "eEfF":
        if v[0] != "n":
            return ("err",)
        x = float_of(v[1])
        if x == 0.0:
            x = 0.0  # Jsonnet convention: negative zero prints without a sign
        return ("exact", (spec + conv) % x)
    if conv in "gG":
        if v[0] != "n":
            return ("err",)
        return ("shape", "g")
    if conv == "c":
        if v[0] == "s":
            if len(v[1]) != 1:
                return ("err",)
            s = v[1]
        elif v[0] == "n":
            x = float_of(v[1])
            t = math.trunc(x)
            if t < 0 or t >= 0x110000 or 0xD800 <= t <= 0xDFFF:
                return ("err",)
            s = chr(t)
        else:
            return ("err",)
        if d["p"] is not None:
            return ("skip", "precision with %c")
        return ("exact", (spec + "s") % s)
    if conv == "s":
        if d["p"] is not None:
            return ("skip", "precision with %s (Python truncates, Jsonnet ignores)")
        if v[0] == "s":
            s = v[1]
        elif v[0] == "n":
            if v[1] not in NUMSTR:
                return ("skip", "%s of a number: std.toString digits are C06's subject")
            s = NUMSTR[v[1]]
        else:
            exp = [e for (t, src, e) in OTHERS if src == v[2]]
            if not exp:
                return ("skip", "unknown rendering")
            s = exp[0]
        return ("exact", (spec + "s") % s)
    return ("skip", "?")


def expectation(c):
    """Independent expectation for a case.
    -> dict(kind='err'|'exact'|'partial'|'none', text=.., minlen=.., single=(d,width,prec,v)|None, why=..)"""
    f = c["f"]
    if f[0] != "s":
        return {"kind": "err", "why": "format is not a string"}
    parts = tokenize(f[1])
    if parts is None:
        return {"kind": "err", "why": "malformed format string"}
    dirs = [p[1] for p in parts if p[0] == "dir"]
    out = []
    minlen = 0
    skip = None
    single = None
    if c["shape"] == "obj":
        fields = dict((k, v) for k, v in c["vals"])
        for kind, p in parts:
            if kind == "lit":
                out.append(p)
                minlen += len(p)
                continue
            if p["w"] == "*" or p["p"] == "*":
                return {"kind": "err", "why": "* with an object"}
            width = int(p["w"]) if p["w"] is not None else 0
            prec = int(p["p"]) if p["p"] is not None else 0
            minlen += width
            if p["conv"] == "%":
                r = py_directive(p, width, prec, None)
            else:
                if p["key"] is None:
                    return {"kind": "err", "why": "mapping key required"}
                if p["key"] not in fields:
                    return {"kind": "err", "why": "missing field"}
                r = py_directive(p, width, prec, fields[p["key"]])
                if len(dirs) == 1:
                    single = (p, width, prec, fields[p["key"]], r)
            if r[0] == "err":
                return {"kind": "err", "why": "type mismatch"}
            if r[0] == "exact":
                out.append(r[1])
            else:
                skip = skip or r
    else:
        vals = list(c["vals"])
        needed = sum((d["conv"] != "%") + (d["w"] == "*") + (d["p"] == "*") for d in dirs)
        i = 0
        for kind, p in parts:
            if kind == "lit":
                out.append(p)
                minlen += len(p)
                continue
            width, prec = 0, 0
            bad = False
            if p["w"] == "*":
                if i >= len(vals):
                    return {"kind": "err", "why": "not enough items"}
                sv = star_value(vals[i])
                i += 1
                if sv[0] == "ok":
                    width = sv[1]
                elif sv[0] == "err":
                    bad = True
                else:
                    return {"kind": "none", "why": "negative * width"}
            elif p["w"] is not None:
                width = int(p["w"])
            if p["p"] == "*":
                if i >= len(vals):
                    return {"kind": "err", "why": "not enough items"}
                sv = star_value(vals[i])
                i += 1
                if p["conv"] in "cs%":
                    pass  # consumed, never looked at
                elif sv[0] == "ok":
                    prec = sv[1]
                elif sv[0] == "err":
                    bad = True
                else:
                    return {"kind": "none", "why": "negative * precision"}
            elif p["p"] is not None:
                prec = int(p["p"])
            if bad:
                return {"kind": "err", "why": "bad * argument"}
            minlen += width
            if p["conv"] == "%":
                r = py_directive(p, width, prec, None)
            else:
                if i >= len(vals):
                    return {"kind": "err", "why": "not enough items"}
                v = vals[i]
                i += 1
                r = py_directive(p, width, prec, v)
                if len(dirs) == 1:
                    single = (p, width, prec, v, r)
            if r[0] == "err":
                return {"kind": "err", "why": "type mismatch"}
            if r[0] == "exact":
                out.append(r[1])
            else:
                skip = skip or r
        if needed != len(vals):
            return {"kind": "err", "why": "argument count mismatch"}
    if skip is None:
        return {"kind": "exact", "text": "".join(out), "minlen": minlen, "single": single}
    return {"kind": "partial", "minlen": minlen, "single": single, "why": skip}


def exact_exp10(av):
    """floor(log10(av)) exactly, av a positive Fraction"""
    e = int(math.floor(math.log10(float(av)))) if float(av) > 0 else -330
    while Fraction(10) ** e > av:
        e -= 1
    while Fraction(10) ** (e + 1) <= av:
        e += 1
    return e


# %g of 1e-4 <= |x| < 1 keeps fewer significant digits than C/Python (upstream Jsonnet convention).
# False: counted in the evidence ("g_fewer_significant_digits_than_C"); True: a violation.
G_RELATIVE_STRICT = False
G_SHORT = []

G_RE = re.compile(r"([-+ ]?)([0-9]+)(\.[0-9]*)?(?:([eE])([-+][0-9]{2,}))?\Z")


def shape_g(d, width, prec, v, text):
    """%g / %G invariants on a single rendered field (without surrounding literals)."""
    x = float_of(v[1])
    flags = d["flags"]
    body = text
    if len(text) < width:
        return "field shorter than width"
    # remove space padding (left or right) — the blank-flag sign is a single leading space
    if "-" in flags:
        body = body.rstrip(" ")
    else:
        stripped = body.lstrip(" ")
        if " " in flags and "+" not in flags and not (x < 0) and len(stripped) < len(body):
            stripped = " " + stripped
        body = stripped
    m = G_RE.match(body)
    if not m:
        return "not a %g-shaped number: %r" % body[:60]
    sign, ip, fp, ech, ex = m.groups()
    neg = x < 0
    want_sign = "-" if neg else ("+" if "+" in flags else (" " if " " in flags else ""))
    if sign != want_sign:
        return "sign %r, expected %r" % (sign, want_sign)
    if ech is not None and ech != ("E" if d["conv"] == "G" else "e"):
        return "exponent letter case"
    if "#" in flags:
        if fp is None:
            return "# flag but no decimal point"
    else:
        if fp is not None and (fp == "." or fp.endswith("0")):
            return "trailing zeros / point not trimmed"
    P = prec if d["p"] is not None else 6
    P1 = max(P, 1)
    val = Fraction(ip + (fp if fp and fp != "." else "")) * (Fraction(10) ** int(ex) if ex else 1)
    av = abs(Fraction(x))
    if av == 0:
        return None if val == 0 else "zero rendered as non-zero"
    e = exact_exp10(av)
    if ex is not None:
        bound = Fraction(1, 2) * Fraction(10) ** (int(ex) - P1 + 1)
    else:
        bound = Fraction(1, 2) * Fraction(10) ** (max(e, 0) - P1 + 1)
    if abs(val - av) > bound:
        return "value off by more than half a unit of digit %d" % P1
    # C / Python: P1 significant digits, i.e. half a unit of the P1-th digit of the value itself.
    # Jsonnet (std.jsonnet and this code alike) counts the digits from the units place when
    # |x| < 1 ("%.3g" % 0.0001234 = "0", "%g" % 0.0001234 = "0.00012"): reported, not failed,
    # unless G_RELATIVE_STRICT is switched on.
    if abs(val - av) > Fraction(1, 2) * Fraction(10) ** (e - P1 + 1) * Fraction(1000001, 1000000):
        G_SHORT.append((d["conv"], prec, v[1]))
        if G_RELATIVE_STRICT:
            return "fewer than %d significant digits (C/Python print them)" % P1
    return None


def shape_bigdec(d, width, prec, v, text):
    """%d of |value| >= 2^53: shortest-round-trip digits padded with zeros (host convention)."""
    t = trunc_of(v)
    flags = d["flags"]
    if len(text) < width:
        return "field shorter than width"
    want_sign = "-" if t < 0 else ("+" if "+" in flags else (" " if " " in flags else ""))
    if "-" in flags:
        body = text.rstrip(" ")
    else:
        body = text.lstrip(" ")
        if want_sign == " " and len(body) < len(text):
            body = " " + body
    if not body.startswith(want_sign):
        return "sign"
    digs = body[len(want_sign):]
    if not re.fullmatch(r"[0-9]+", digs):
        return "not digits: %r" % digs[:40]
    if float(int(digs)) != float(abs(t)):
        return "digits do not read back as the value"
    # shortest round-trip digits: at most 17 significant ones, the rest zeros
    if len(digs.lstrip("0").rstrip("0")) > 17:
        return "more than 17 significant digits"
    if d["p"] is not None and len(digs) < prec:
        return "fewer digits than the precision"
    return None


# ---------------------------------------------------------------- generators

CONVS = "diuoxXeEfFgGcs%"
FLAGCH = "#0- +"
WIDTHS = [None, None, None, "0", "1", "2", "3", "5", "8", "10", "12", "20", "40", "64", "*"]
PRECS = [None, None, None, "0", "1", "2", "3", "5", "6", "10", "15", "17", "20", "30", "50", "*"]
BIG = ["1099", "1100", "1101", "2000", "65535", "65536", "70000"]


def value_for(rng, conv):
    if conv in "diuoxX":
        return vnum(rand_num(rng)) if rng.random() < 0.95 else rng.choice([vstr("12"), vother(0), vother(4)])
    if conv in "eEfFgG":
        return vnum(rand_num(rng)) if rng.random() < 0.96 else rng.choice([vstr("1.5"), vother(1), vother(6)])
    if conv == "c":
        k = rng.random()
        if k < 0.45:
            return vnum(rng.choice(CODEPOINTS))
        if k < 0.9:
            return vstr(rng.choice(STRINGS))
        return rng.choice([vother(0), vother(3), vother(6)])
    if conv == "s":
        k = rng.random()
        if k < 0.5:
            return vstr(rng.choice(STRINGS))
        if k < 0.7:
            return vnum(float_of(rng.choice(sorted(NUMSTR))))
        if k < 0.75:
            return vnum(rand_num(rng))
        return vother(rng.randrange(len(OTHERS)))
    return None


def gen_directive(rng, big_ok):
    """-> (text, [values consumed], info)"""
    conv = rng.choice(CONVS)
    if conv == "%" and rng.random() < 0.5:
        conv = rng.choice("dxefgs")
    flags = "".join(ch for ch in FLAGCH if rng.random() < 0.3)
    if rng.random() < 0.1:
        flags = "".join(rng.sample(flags, len(flags))) + (rng.choice(FLAGCH) if rng.random() < 0.3 else "")
    w = rng.choice(WIDTHS)
    p = rng.choice(PRECS)
    if big_ok and rng.random() < 0.5:
        if rng.random() < 0.5:
            w = rng.choice(BIG)
        else:
            p = rng.choice(BIG)
    vals = []
    if w == "*":
        k = rng.random()
        if k < 0.75:
            vals.append(vnum(float(rng.choice([0, 1, 2, 5, 9, 17, 33]))))
        elif k < 0.8 and big_ok:
            vals.append(vnum(float(rng.choice([65535, 65536, 70000]))))
        elif k < 0.88:
            vals.append(vnum(rng.choice([-1.0, -5.0, -0.5, 3.7, 2.0 ** 32, 1e100, -1e100])))
        else:
            vals.append(rng.choice([vstr("5"), vother(0), vother(4)]))
    if p == "*":
        k = rng.random()
        if k < 0.75:
            vals.append(vnum(float(rng.choice([0, 1, 2, 5, 9, 17, 33]))))
        elif k < 0.8 and big_ok:
            vals.append(vnum(float(rng.choice([1100, 1101, 65535, 65536, 70000]))))
        elif k < 0.88:
            vals.append(vnum(rng.choice([-1.0, -5.0, -0.5, 3.7, 2.0 ** 32, 1e100])))
        else:
            vals.append(rng.choice([vstr("5"), vother(1), vother(3)]))
    lm = rng.choice(["", "", "", "", "h", "l", "L"])
    text = "%" + flags + (w or "") + ("." + p if p is not None else "") + lm + conv
    v = value_for(rng, conv)
    if v is not None:
        vals.append(v)
    nontrivial = bool(flags or w is not None or p is not None)
    return text, vals, {"conv": conv, "nontrivial": nontrivial, "big": (w in BIG or p in BIG)}


LITS = ["", "", "", "|", "a", " x ", "é", "=>", "日本", "100", ")"]


def gen_single(rng, big_ok=False):
    text, vals, info = gen_directive(rng, big_ok)
    pre, post = rng.choice(LITS), rng.choice(LITS)
    if rng.random() < 0.6:
        pre = post = ""
    shape = "arr"
    via = "fmt" if rng.random() < 0.6 else "pct"
    if len(vals) == 1 and vals[0][0] != "o" and rng.random() < 0.3:
        shape = "one"
    elif len(vals) == 1 and vals[0][0] == "o" and vals[0][1] not in ("array", "object") and rng.random() < 0.3:
        shape = "one"
    return {"via": via, "f": vstr(pre + text + post), "shape": shape, "vals": vals, "tag": "single:" + info["conv"],
            "nontrivial": info["nontrivial"], "big": info["big"]}


def gen_multi(rng):
    n = rng.randrange(2, 5)
    fmt = rng.choice(LITS)
    vals = []
    nt = False
    for _ in range(n):
        t, vs, info = gen_directive(rng, False)
        fmt += t + rng.choice(LITS)
        vals += vs
        nt = nt or info["nontrivial"]
    k = rng.random()
    tag = "multi"
    if k < 0.12 and vals:
        vals = vals[:-1]
        tag = "multi:deficit"
    elif k < 0.24:
        vals = vals + [rng.choice([vnum(1.0), vstr("x"), vother(0)])]
        tag = "multi:surplus"
    elif k < 0.28:
        vals = []
        tag = "multi:empty"
    return {"via": rng.choice(["fmt", "pct"]), "f": vstr(fmt), "shape": "arr", "vals": vals, "tag": tag,
            "nontrivial": nt, "big": False}


def gen_plain(rng):
    """a format with no directive at all (or only %%): every argument is surplus, whichever way formatting is reached"""
    text = "".join(rng.choice(["abc", "", "é ", "100", "%%", " done ", "x=y"]) for _ in range(rng.randrange(0, 4)))
    k = rng.random()
    if k < 0.25:
        shape, vals = "arr", []
    elif k < 0.7:
        shape, vals = "arr", [rng.choice([vnum(1.0), vstr("x"), vother(0), vstr("")]) for _ in range(rng.randrange(1, 3))]
    else:
        shape, vals = "one", [rng.choice([vnum(42.0), vstr("x"), vstr("")])]
    return {"via": rng.choice(["fmt", "pct", "pct"]), "f": vstr(text), "shape": shape, "vals": vals,
            "tag": "plain:" + ("empty-args" if not vals else "surplus"), "nontrivial": bool(vals), "big": False}


KEYS = ["a", "b", "key", "é", "k 1", "", "日本", "a.b", "x"]


def gen_object(rng):
    n = rng.randrange(1, 4)
    fmt = rng.choice(LITS)
    fields = {}
    nt = False
    for _ in range(n):
        t, vs, info = gen_directive(rng, False)
        key = rng.choice(KEYS)
        r = rng.random()
        if "*" in t.replace("%", "", 1) and rng.random() < 0.7:
            t = t.replace("*", "3")
            vs = vs[-1:] if info["conv"] != "%" else []
        if r < 0.88 or info["conv"] == "%":
            if info["conv"] != "%" or rng.random() < 0.3:
                t = "%(" + key + ")" + t[1:]
        if vs and r > 0.06:
            fields[key] = vs[-1]
        fmt += t + rng.choice(LITS)
        nt = nt or info["nontrivial"]
    if rng.random() < 0.3:
        fields[rng.choice(KEYS)] = vnum(3.0)
    return {"via": rng.choice(["fmt", "pct"]), "f": vstr(fmt), "shape": "obj",
            "vals": [[k, v] for k, v in sorted(fields.items())], "tag": "object", "nontrivial": nt, "big": False}


MAL_ALPHA = list("%%%%(()ab#0- +*..1239hlLdiuoxXeEfFgGcsqz%é ") + ["99999999999", "4294967296", "4294967295123"]


def gen_malformed(rng):
    k = rng.random()
    if k < 0.35:
        fmt = rng.choice(["%", "%5", "%.", "%.x", "%(abc", "%(", "%l", "%-", "%5.", "%.*", "%*", "%hh d", "%hhd", "%lld",
                          "%99999999999d", "%.99999999999d", "%4294967296d", "%.4294967296f", "%q", "%é", "%5.3",
                          "%(a)", "%(a)(b)d", "%#", "abc%", "%d%", "%%%", "%.-3d", "%. 3d", "%5 d", "%1$d", "%'d",
                          "%n", "%p", "%a", "%D", "%S", "%C", "%I", "%.3.4f", "%**d", "%5*d", "%\n", "%́", "%😀"])
        fmt = rng.choice(LITS) + fmt
    else:
        n = rng.randrange(1, 9)
        fmt = "%" + "".join(rng.choice(MAL_ALPHA) for _ in range(n))
        # never let a random run of digits form a huge (allocating) width below 2^32
        fmt = re.sub(r"[0-9]{3,9}", lambda m: m.group(0)[:2], fmt) if not re.search(r"[0-9]{10,}", fmt) else fmt
        if re.search(r"(?<![0-9])[0-9]{3,10}(?![0-9])", fmt):
            fmt = "%5.q"
    nvals = rng.randrange(0, 4)
    vals = [rng.choice([vnum(safe_num(rng)), vnum(3.0), vstr("s"), vother(0)]) for _ in range(nvals)]
    return {"via": rng.choice(["fmt", "pct"]), "f": vstr(fmt), "shape": "arr", "vals": vals, "tag": "malformed",
            "nontrivial": len(fmt) > 2, "big": False}


def gen_notstring(rng):
    f = rng.choice([vnum(1.0), vother(0), vother(1), vother(4), vother(6)])
    return {"via": "fmt", "f": f, "shape": "arr", "vals": [vnum(1.0)], "tag": "fmt-not-string", "nontrivial": True,
            "big": False}


def corpus_cases():
    def one(fmt, vals, shape="arr", via="fmt", big=False):
        return {"via": via, "f": vstr(fmt), "shape": shape, "vals": vals, "tag": "corpus", "nontrivial": True,
                "big": big}
    cs = [
        one("%.70000f", [vnum(1.0)], big=True),               # F2
        one("%3s|", [vstr("éé")]),                            # F3
        one("%.70000e", [vnum(1.5)], big=True),
        one("%.65536g", [vnum(0.1)], big=True),
        one("%#.65536G", [vnum(1e-5)], big=True),
        one("%70000d", [vnum(-1.0)], big=True),
        one("%-70000s|", [vstr("日本")], big=True),
        one("%070000.3f", [vnum(-2.5)], big=True),
        one("%.70000x", [vnum(255.0)], big=True),
        one("%*.*f", [vnum(70000.0), vnum(65536.0), vnum(0.5)], big=True),
        one("%5%|%-5%|%05%", []),
        one("%%", []),
        one("100%% %s", [vstr("ok")]),
        one("%(a)05d %(b)s", [["a", vnum(-3.0)], ["b", vstr("é")]], shape="obj"),
        one("%d", [vnum(-0.0)]), one("%f", [vnum(-0.0)]), one("%e", [vnum(-0.0)]), one("%g", [vnum(-0.0)]),
        one("%x", [vnum(-0.5)]), one("%+d", [vnum(-0.0)]), one("% d", [vnum(-0.9)]),
        one("%.0f|%.0f|%.0f|%.0f", [vnum(0.5), vnum(1.5), vnum(2.5), vnum(3.5)]),
        one("%.2f", [vnum(0.125)]), one("%.2f", [vnum(0.375)]), one("%.1e", [vnum(2.5e-1)]),
        one("%e", [vnum(5e-324)]), one("%.1100e", [vnum(5e-324)]), one("%.1101f", [vnum(5e-324)]),
        one("%f", [vnum(1e308)]), one("%d", [vnum(1e308)]), one("%x", [vnum(1e308)]), one("%#o", [vnum(1e308)]),
        one("%g", [vnum(0.0001234)]), one("%g", [vnum(999999.5)]), one("%g", [vnum(1e-5)]), one("%#g", [vnum(1.0)]),
        one("%c%c", [vnum(233.0), vstr("😀")]), one("%5c|", [vnum(0x1F600 * 1.0)]),
        one("%s %s %s", [vother(4), vother(6), vother(0)]),
        one("%d", [vnum(1.0), vnum(2.0)]), one("%d %d", [vnum(1.0)]), one("%*d", [vnum(3.0)]),
        one("%*d", [vnum(-5.0), vnum(42.0)]),
        one("%d", [vnum(7.0)], shape="one", via="pct"), one("%s", [vother(0)], shape="one", via="pct"),
        one("no directives at all", []), one("", []),
        one("%ld %hi %Lu", [vnum(1.0), vnum(2.0), vnum(3.0)]),
        one("%(k)d", [vnum(5.0)]),
    ]
    return cs


# ---------------------------------------------------------------- running

def _model(lines):
    return vlib.model(lines)


def run_model(lines):
    """Model answers with the needhost loop (host strings fetched from plain Rust formatting)."""
    extra = [[] for _ in lines]
    res = [None] * len(lines)
    todo = list(range(len(lines)))
    hostq = 0
    for _ in range(40):
        if not todo:
            break
        out = _model([lines[i] + "".join(" " + t for t in extra[i]) for i in todo])
        nxt, queries = [], []
        for i, a in zip(todo, out):
            if a.startswith("needhost "):
                nxt.append(i)
                queries.append("fmt host " + a[len("needhost "):])
            else:
                res[i] = a
        if queries:
            hostq += len(queries)
            ans = vlib.impl(queries)
            keep = []
            for i, q, h in zip(nxt, queries, ans):
                if not h.startswith("H:"):
                    res[i] = "hostfail %s -> %s" % (q, h[:80])
                else:
                    extra[i].append(h)
                    keep.append(i)
            nxt = keep
        todo = nxt
    for i in todo:
        res[i] = "needhost-loop"
    return res, hostq


def decode(ans):
    w = ans.split(" ")
    if w[0] == "ok" and len(w) == 2:
        return ("ok", vlib.unhx(w[1]).decode("utf-8", "replace"))
    if w[0] == "err":
        return ("err", " ".join(w[1:]))
    return ("bad", ans[:200])


def oracle(c, ans):
    """Direct checks on the implementation's answer. -> (violation text | None, branch name)"""
    r = decode(ans)
    if r[0] == "bad":
        return "panic / crash / unexpected answer: " + r[1], "bad"
    exp = expectation(c)
    if exp["kind"] == "err":
        if r[0] != "err":
            return "expected an error (%s), got a value %r" % (exp["why"], r[1][:60]), "err"
        return None, "err:" + exp["why"]
    if exp["kind"] == "none":
        return None, "excluded:" + exp["why"]
    if r[0] == "err":
        return "well-formed format with matching arguments reported %s" % r[1], "ok"
    text = r[1]
    if len(text) < exp["minlen"]:
        return "rendered text has %d characters, fewer than the widths/literals require (%d)" % (
            len(text), exp["minlen"]), "width"
    if exp["kind"] == "exact":
        if text != exp["text"]:
            return "differs from Python's %% operator: got %r, expected %r" % (text[:80], exp["text"][:80]), "exact"
        return None, "python-exact"
    sg = exp.get("single")
    if sg is not None and sg[4][0] == "shape":
        parts = tokenize(c["f"][1])
        pre = "".join(p[1] for p in parts[:1] if p[0] == "lit")
        post = "".join(p[1] for p in parts[-1:] if p[0] == "lit" and len(parts) > 1)
        if not (text.startswith(pre) and text.endswith(post)):
            return "literal text not preserved", "shape"
        field = text[len(pre):len(text) - len(post)]
        fn = shape_g if sg[4][1] == "g" else shape_bigdec
        bad = fn(sg[0], sg[1], sg[2], sg[3], field)
        if bad:
            return "%s shape invariant: %s (field %r)" % (sg[4][1], bad, field[:80]), "shape"
        return None, "shape:" + sg[4][1]
    return None, "partial:" + str(exp.get("why", ("", ""))[1])[:30]


def prepare():
    srcs = [o[1] for o in OTHERS]
    out = vlib.impl(["fmt tostr " + vlib.hx(s) for s in srcs])
    for (t, src, exp), a in zip(OTHERS, out):
        w = a.split(" ")
        if len(w) != 2 or w[0] != t:
            raise vlib.BrokenTie("fmt tostr failed", a[:200])
        RENDERED[src] = vlib.unhx(w[1]).decode("utf-8")


def run(rep):
    rep.rule = ("single directives (conversion x flag subset x width/precision incl. *, 65535/65536/70000) x values "
                "(integers to 1e308, -0, rounding ties, subnormals, multi-byte strings, arrays/objects via %s), "
                "multi-directive formats with surplus/deficit arguments, (key) object formats, malformed strings; "
                "non-trivial = at least one directive carrying a flag, width or precision (or a malformed/mismatched "
                "case of length > 2); distinct by request line")
    rep.assumptions = [
        "trusted base: Rust's {:.p$} / {:.p$e} / f64::to_string / f64::log10 and the number printer behind %s are "
        "parameters of the model; the harness supplies the strings Rust produced (fmt host)",
        "model: f64::to_string of an integer-valued double below 2^53 is its exact decimal expansion "
        "(checked on every such case by the Python oracle)",
        "'#o': Python prints 0o, so the C rule (precision raised to force a leading 0) is applied on top of Python's %o",
        "Python oracle exclusions (conventions do not coincide): '%%' with a width, "
        "precision on %s/%c (Jsonnet ignores it), %d of |x| >= 2^53 (host prints shortest round-trip digits; "
        "shape invariant instead), %g/%G (Jsonnet decides the style before rounding; value/shape invariant instead), "
        "negative zero with e/E/f/F (Jsonnet prints no sign: compared with Python on +0), %g of 1e-4 <= |x| < 1 "
        "(Jsonnet counts the precision from the units digit: '%.3g' % 0.0001234 = '0'; counted as "
        "g_fewer_significant_digits_than_C, a violation only with G_RELATIVE_STRICT), negative '*' width or "
        "precision (the code reports an error where C left-justifies; model comparison only), "
        "%s of numbers other than a few literals (C06's subject)",
        "%x/%o of non-integers: the value is truncated toward zero first (Python needs an int)",
        "widths below 2^32 but above 70000 are not exercised (they allocate gigabytes)",
        "object fields are visible fields of a literal object; thunk evaluation errors inside arguments not modelled",
    ]
    vlib.prelude(rep)
    prepare()
    rng = rep.rng
    quick = rep.tier == "quick"
    n_single, n_big, n_multi, n_obj, n_mal = (14000, 100, 3000, 2000, 2500) if quick else (400000, 1200, 80000, 50000, 60000)
    cases = corpus_cases()
    if not quick:
        # exhaustive small scope: every conversion x every flag subset x a few widths/precisions on fixed values
        for conv in CONVS:
            for fl in range(32):
                flags = "".join(ch for j, ch in enumerate(FLAGCH) if fl >> j & 1)
                for w in ("", "7"):
                    for p in ("", ".0", ".3"):
                        for v in ([vnum(-3.0), vnum(0.0), vnum(2.5), vnum(1234567.0)] if conv not in "cs%" else
                                  [vstr("é")] if conv != "%" else [None]):
                            cases.append({"via": "fmt", "f": vstr("%" + flags + w + p + conv), "shape": "arr",
                                          "vals": [v] if v else [], "tag": "grid:" + conv, "nontrivial": True,
                                          "big": False})
    for _ in range(n_single):
        cases.append(gen_single(rng))
    for _ in range(n_big):
        cases.append(gen_single(rng, big_ok=True))
    for _ in range(n_multi):
        cases.append(gen_multi(rng))
    for _ in range(n_obj):
        cases.append(gen_object(rng))
    for _ in range(300 if quick else 6000):
        cases.append(gen_plain(rng))
    for _ in range(n_mal):
        cases.append(gen_malformed(rng))
    for _ in range(12 if quick else 100):
        cases.append(gen_notstring(rng))
    seen = set()
    uniq = []
    for c in cases:
        c["key"] = case_line(c)
        if c["key"] in seen:
            continue
        seen.add(c["key"])
        uniq.append(c)
    cases = uniq
    lines = [c["key"] for c in cases]
    io = vlib.impl(lines)
    mo, hostq = run_model(lines)
    rep.bump("host_queries", hostq)
    for c, a in zip(cases, io):
        bad, branch = oracle(c, a)
        rep.bump(c["tag"])
        rep.bump("oracle:" + branch.split(":")[0])
        if c["big"]:
            rep.bump("big-width-or-precision")
        sample = None
        if c["nontrivial"] and len(a) < 200 and rep.rng.random() < 0.002:
            sample = {"format": c["f"][1] if c["f"][0] == "s" else c["f"], "vals": c["vals"], "impl": a}
        rep.count(c["key"], c["nontrivial"], sample=sample)
        if bad:
            rep.violation("fmt:" + c["key"][:300], bad, {"case": strip(c), "impl": a[:1000]})
    rep.bump("g_fewer_significant_digits_than_C", len(G_SHORT))
    vlib.compare(rep, [strip(c) for c in cases], io, mo, label="std.format")


def strip(c):
    return {k: c[k] for k in ("key", "via", "f", "shape", "vals", "tag")}


def replay(r):
    vlib.build_harness()
    prepare()
    c = r["replay"]["case"]
    c.setdefault("nontrivial", True)
    line = case_line(c)
    a = vlib.impl([line])[0]
    b, _ = run_model([line])
    print("request:", line[:400])
    print("impl :", a[:400], decode(a)[1][:200] if decode(a)[0] == "ok" else "")
    print("model:", b[0][:400])
    bad, branch = oracle(c, a)
    print("oracle:", bad, "(%s)" % branch)
    return 1 if bad or a != b[0] else 0
