"""C08 — `==` structural equivalence, `<` total order, mutually consistent.

Values are Python tuples:
  ('z',) null | ('b', bool) | ('n', int) | ('d', literal)  (fractional, implementation side only)
  ('s', (cp, ...)) | ('a', (v, ...)) | ('o', ((layer), ...)) with layer = ((key, vis, v), ...)
  ('f',) function | ('e',) failing thunk
and travel in the notation of harness/src/ops_cmp.rs.
"""
import vlib

OPS = ["==", "!=", "std.equals", "<", "<=", ">", ">=", "std.__compare", "std.__compare_array"]
TYNAME = {"z": "Null", "b": "Bool", "n": "Number", "d": "Number", "s": "String", "a": "Array",
          "o": "Object", "f": "Function"}

# ---------------------------------------------------------------- notation


def note(v):
    t = v[0]
    if t == "z":
        return "null"
    if t == "b":
        return "true" if v[1] else "false"
    if t == "n":
        return "n:" + v[1] if isinstance(v[1], str) else "n:%d" % v[1]
    if t == "d":
        return "d:" + v[1]
    if t == "s":
        return "s:" + (".".join(str(c) for c in v[1]) if v[1] else "-")
    if t == "a":
        return "a[" + ",".join(note(x) for x in v[1]) + "]"
    if t == "o":
        ls = ["o{" + ",".join(k + {":": "=", "::": "~", ":::": "!"}[vis] + note(x) for k, vis, x in layer) + "}"
              for layer in v[1]]
        out = ls[0]
        for l in ls[1:]:
            out = "p(" + out + "," + l + ")"
        return out
    if t == "f":
        return "f"
    if t == "e":
        return "E"
    raise ValueError(v)


# ---------------------------------------------------------------- decoding (the JSON value denoted)


def visible_fields(layers):
    """Jsonnet inheritance without self/super: right value wins, `:` inherits visibility."""
    cur = {}
    for layer in layers:
        for k, vis, x in layer:
            if k in cur and vis == ":":
                cur[k] = (cur[k][0], x)
            else:
                cur[k] = (vis, x)
    return sorted((k, x) for k, (vis, x) in cur.items() if vis != "::")


def numval(v):
    if v[0] == "d":
        return float(v[1])
    return float(int(v[1]))


def dec(v):
    """Tagged JSON value; Python `==` on the result is 'same JSON value' (-0.0 == 0.0)."""
    t = v[0]
    if t in ("n", "d"):
        return ("n", numval(v))
    if t == "a":
        return ("a", tuple(dec(x) for x in v[1]))
    if t == "o":
        return ("o", tuple((k, dec(x)) for k, x in visible_fields(v[1])))
    return v


def pure(v):
    t = v[0]
    if t in ("f", "e"):
        return False
    if t == "a":
        return all(pure(x) for x in v[1])
    if t == "o":
        return all(pure(x) for _, x in visible_fields(v[1]))
    return True


def ref_cmp(a, b):
    """Reference three-way comparison on decoded pure values; None = no order."""
    if a[0] != b[0]:
        return None
    if a[0] == "n" or a[0] == "s":
        return (a[1] > b[1]) - (a[1] < b[1])
    if a[0] == "a":
        for x, y in zip(a[1], b[1]):
            c = ref_cmp(x, y)
            if c is None or c != 0:
                return c
        return (len(a[1]) > len(b[1])) - (len(a[1]) < len(b[1]))
    return None


def sort_of(d):
    """Homogeneous sort of a decoded value: 'N', 'S', ('A', sort|None) or False."""
    if d[0] == "n":
        return "N"
    if d[0] == "s":
        return "S"
    if d[0] == "a":
        s = None
        for x in d[1]:
            sx = sort_of(x)
            if sx is False:
                return False
            u = unify(s, sx)
            if u is False:
                return False
            s = u
        return ("A", s)
    return False


def unify(s, t):
    if s is None:
        return t
    if t is None:
        return s
    if s == t:
        return s
    if isinstance(s, tuple) and isinstance(t, tuple):
        u = unify(s[1], t[1])
        return False if u is False else ("A", u)
    return False


def native(d):
    """Plain Python numbers / code point lists / nested lists."""
    if d[0] == "n":
        return d[1]
    if d[0] == "s":
        return list(d[1])
    return [native(x) for x in d[1]]


def common_prefix(a, b):
    da, db = dec(a), dec(b)
    if da[0] != db[0] or da[0] not in ("s", "a", "o"):
        return False
    return len(da[1]) >= 1 and len(db[1]) >= 1 and da[1][0] == db[1][0]


# ---------------------------------------------------------------- generators

P53 = 2 ** 53
NUMS = [0, "-0", 1, -1, 2, -2, 3, 10, 255, P53 - 2, P53 - 1, P53, P53 + 2, -P53, -(P53 - 1), 2 ** 31, -(2 ** 63)]
DNUMS = ["0.5", "-0.5", "1e-3", "0.1", "0.30000000000000004", "9007199254740993", "-0.0", "1.5", "1e308",
         "4.9e-324", "2.5", "1.0000000000000002", "0.9999999999999999", "3e0"]
CPS = [0x61, 0x62, 0x41, 0x7A, 0x30, 0x20, 0x7F, 0xE9, 0xFF, 0x100, 0x7FF, 0x800, 0xD7FF, 0xE000, 0xFFFD,
       0xFFFF, 0x10000, 0x10001, 0x1F600, 0x10FFFF, 0x22, 0x5C, 0x0A, 0x01]
KEYS = ["a", "b", "c", "ab", "a1", "_x", "z"]


def g_num(rng):
    return ("n", rng.choice(NUMS) if rng.random() < 0.8 else rng.randrange(-5, 6))


def g_str(rng):
    return ("s", tuple(rng.choice(CPS) for _ in range(rng.choice([0, 1, 1, 2, 2, 3, 4]))))


def g_atom(rng):
    r = rng.random()
    if r < 0.35:
        return g_num(rng)
    if r < 0.65:
        return g_str(rng)
    if r < 0.75:
        return ("z",)
    if r < 0.87:
        return ("b", rng.random() < 0.5)
    if r < 0.94:
        return ("f",)
    return ("e",)


def g_obj(rng, depth, elem):
    nl = rng.choice([1, 1, 2, 3])
    layers = []
    for _ in range(nl):
        ks = rng.sample(KEYS, rng.choice([0, 1, 2, 2, 3]))
        layers.append(tuple((k, rng.choice([":", ":", ":", "::", ":::"]), elem(rng, depth - 1)) for k in ks))
    return ("o", tuple(layers))


def g_val(rng, depth):
    if depth <= 0 or rng.random() < 0.35:
        return g_atom(rng)
    if rng.random() < 0.65:
        return ("a", tuple(g_val(rng, depth - 1) for _ in range(rng.choice([0, 1, 2, 2, 3]))))
    return g_obj(rng, depth, g_val)


def g_sorted(rng, sort, depth):
    """A value of a homogeneous sort ('N' | 'S' | nesting level of arrays)."""
    if sort == "N":
        return g_num(rng)
    if sort == "S":
        return g_str(rng)
    return ("a", tuple(g_sorted(rng, sort[1], depth - 1) for _ in range(rng.choice([0, 1, 2, 2, 3, 4]))))


def g_pure(rng, depth):
    """No functions, no failing thunks in visible positions."""
    if depth <= 0 or rng.random() < 0.3:
        r = rng.random()
        if r < 0.4:
            return g_num(rng)
        if r < 0.75:
            return g_str(rng)
        if r < 0.85:
            return ("z",)
        return ("b", rng.random() < 0.5)
    if rng.random() < 0.55:
        return ("a", tuple(g_pure(rng, depth - 1) for _ in range(rng.choice([0, 1, 2, 3]))))
    o = g_obj(rng, depth, g_pure)
    # fields declared hidden may hold anything: they must never be looked at
    # (the last layer defining a key decides its value, and `::` there keeps it hidden)
    layers = tuple(tuple((k, vis, (rng.choice([("e",), ("f",)]) if vis == "::" and rng.random() < 0.5 else x))
                         for k, vis, x in layer) for layer in o[1])
    v = ("o", layers)
    return v if pure(v) else o


def mutate(rng, v, gen):
    """A close relative of v: equal, a prefix, an extension, or differing late."""
    t = v[0]
    r = rng.random()
    if t == "n":
        if r < 0.3:
            return v
        if v[1] == "-0" or v[1] == 0:
            return ("n", rng.choice([0, "-0", 1, -1]))
        return ("n", int(v[1]) + rng.choice([-1, 1]) if abs(int(v[1])) < P53 - 2 else rng.choice(NUMS))
    if t == "s":
        cps = list(v[1])
        if r < 0.25:
            return v
        if r < 0.45 and cps:
            return ("s", tuple(cps[:-1]))
        if r < 0.7:
            return ("s", tuple(cps + [rng.choice(CPS)]))
        if cps:
            i = rng.randrange(len(cps))
            cps[i] = rng.choice(CPS)
        return ("s", tuple(cps))
    if t == "a":
        xs = list(v[1])
        if r < 0.2:
            return v
        if r < 0.4 and xs:
            return ("a", tuple(xs[:-1]))
        if r < 0.6:
            return ("a", tuple(xs + [gen(rng)]))
        if xs:
            i = rng.randrange(len(xs))
            xs[i] = mutate(rng, xs[i], gen) if rng.random() < 0.7 else gen(rng)
        return ("a", tuple(xs))
    if t == "o":
        layers = list(v[1])
        if r < 0.2:
            return v
        if r < 0.4:
            # same JSON value, built differently: extra hidden field in a new layer
            return ("o", tuple(layers + [(("h", "::", ("e",)),)]))
        if r < 0.55:
            # flatten into one literal with the visible fields in reverse order
            vf = visible_fields(layers)
            return ("o", (tuple((k, ":", x) for k, x in reversed(vf)),))
        if r < 0.7:
            vf = visible_fields(layers)
            if vf:
                # hide one visible field
                k = rng.choice(vf)[0]
                return ("o", tuple(layers + [((k, "::", ("n", 0)),)]))
        if r < 0.85:
            vf = visible_fields(layers)
            if vf:
                # same number of visible fields, different set: one field goes hidden WITH its value, a new one appears
                k, x = rng.choice(vf)
                fresh = [q for q in KEYS + ["zz"] if q not in [f for f, _ in vf]]
                nk = rng.choice(fresh)
                return ("o", tuple(layers + [((k, "::", x), (nk, ":", rng.choice([x, gen(rng)])))]))
        vf = visible_fields(layers)
        if vf:
            k, x = rng.choice(vf)
            return ("o", tuple(layers + [((k, ":", mutate(rng, x, gen)),)]))
        return ("o", tuple(layers + [((rng.choice(KEYS), ":", gen(rng)),)]))
    return v


def pool(rng, size):
    """A family of related values (so that equal values, prefixes, late differences occur)."""
    fam = rng.random()
    if fam < 0.15:
        gen = g_num
        base = g_num(rng)
    elif fam < 0.35:
        gen = g_str
        base = g_str(rng)
    elif fam < 0.6:
        sort = rng.choice([("A", "N"), ("A", "S"), ("A", ("A", "N")), ("A", ("A", "S")), ("A", ("A", ("A", "N")))])
        gen = lambda r: g_sorted(r, sort[1], 3)
        base = g_sorted(rng, sort, 3)
    elif fam < 0.8:
        gen = lambda r: g_pure(r, 1)
        base = g_pure(rng, 3)
    else:
        gen = lambda r: g_val(r, 1)
        base = g_val(rng, 3)
    vals = [base]
    while len(vals) < size:
        src = rng.choice(vals)
        vals.append(mutate(rng, src, gen) if rng.random() < 0.85 else gen(rng))
    return vals


CORPUS_POOLS = [
    [("n", 0), ("n", "-0"), ("n", 1), ("n", -1), ("n", P53 - 1), ("n", P53), ("n", P53 + 2)],
    [("s", ()), ("s", (0x61,)), ("s", (0x61, 0x62)), ("s", (0xFFFF,)), ("s", (0x10000,)), ("s", (0xFFFF, 0x61)),
     ("s", (0xE000,)), ("s", (0xD7FF,)), ("s", (0x10FFFF,)), ("s", (0x7F,)), ("s", (0x80,)), ("s", (0x7FF,)),
     ("s", (0x800,))],
    [("a", ()), ("a", (("n", 1),)), ("a", (("n", 1), ("n", 2))), ("a", (("n", 1), ("n", 3))), ("a", (("n", 2),)),
     ("a", (("a", ()),)), ("a", (("a", (("n", 1),)), ("a", ()))), ("a", (("a", (("n", 1),)),)),
     ("a", (("a", (("n", 1), ("n", 0))),)), ("a", (("n", 2), ("n", 2))), ("a", (("n", 1), ("n", 2), ("n", 3))),
     ("a", (("n", 2), ("n", 2), ("n", 3)))],
    [("o", ((("a", ":", ("n", 1)),),)), ("o", ((("a", ":", ("n", 1)),), (("b", "::", ("n", 2)),))),
     ("o", ((("a", ":", ("n", 1)),), (("b", ":", ("n", 2)),))), ("o", ((("b", ":", ("n", 2)), ("a", ":", ("n", 1))),)),
     ("o", ((("a", "::", ("n", 1)),), (("a", ":", ("n", 1)),))), ("o", ((("a", "::", ("n", 1)),), (("a", ":::", ("n", 1)),))),
     ("o", ((),)), ("o", ((("h", "::", ("e",)),),)), ("o", ((("a", ":", ("n", 1)), ("h", "::", ("f",))),)),
     ("o", ((("a", ":", ("n", 9)), ("b", ":", ("n", 2))),)),
     ("o", ((("a", ":", ("n", 1)), ("b", ":", ("n", 2)), ("c", ":", ("n", 3))),)),
     ("o", ((("a", ":", ("n", 1)), ("b", ":", ("n", 9)), ("c", ":", ("n", 3))),)),
     ("o", ((("a", ":", ("n", 1)), ("b", "::", ("n", 2)), ("c", ":", ("n", 3))),)),
     ("o", ((("a", ":", ("n", 1)), ("b", "::", ("n", 2))), (("c", ":", ("n", 3)),))),
     ("o", ((("a", "::", ("n", 1)), ("b", ":", ("n", 2)), ("c", ":", ("n", 3))),)),
     ("o", ((("a", ":", ("n", 1)), ("c", ":", ("n", 3))),))],
    [("z",), ("b", True), ("b", False), ("n", 0), ("n", 1), ("s", ()), ("a", ()), ("o", ((),)), ("f",), ("e",),
     ("s", (0x31,)), ("a", (("z",),)), ("a", (("f",),))],
    [("a", (("n", 1), ("e",))), ("a", (("n", 2), ("e",))), ("a", (("n", 1), ("n", 2))), ("a", (("e",), ("n", 1))),
     ("a", (("n", 1),)), ("a", (("n", 1), ("e",), ("n", 3))), ("a", (("n", 1), ("f",))), ("a", (("n", 2), ("f",)))],
]

# ---------------------------------------------------------------- oracles


def parse9(out):
    r = out.split(",")
    return r if len(r) == 9 else None


def tobool(x):
    return {"true": True, "false": False}.get(x)


def toint(x):
    try:
        return int(x)
    except ValueError:
        return None


def unordered_error(a, b):
    """The specific error for comparing a and b when their top-level kinds have no order."""
    ta, tb = TYNAME.get(a[0]), TYNAME.get(b[0])
    if ta is None or tb is None:
        return None
    if ta != tb:
        return "ECompareDifferentTypesInequality:%s/%s" % (ta, tb)
    return {"Null": "ECompareNullInequality", "Bool": "ECompareBooleanInequality",
            "Object": "ECompareObjectInequality", "Function": "ECompareFunctions"}.get(ta)


def pair_oracle(a, b, r):
    """Direct checks of one answer line of the implementation. Returns a description or None."""
    if r is None:
        return "malformed answer (driver failure)"
    for x in r:
        if x.startswith("X") or x.startswith("panic") or x.startswith("crash") or x == "bad-op":
            return "driver failure: " + x[:80]
    eq, ne, seq, lt, le, gt, ge, c3, ca = r
    # != is the negation of ==, std.equals is ==
    if tobool(eq) is None:
        if not eq.startswith("E") or ne != eq:
            return "== gives %s but != gives %s" % (eq, ne)
    elif tobool(ne) is not (not tobool(eq)):
        return "!= (%s) is not the negation of == (%s)" % (ne, eq)
    if seq != eq:
        return "std.equals (%s) differs from == (%s)" % (seq, eq)
    # the five ordering results are derived from one ordering
    if toint(c3) is None:
        if not c3.startswith("E") or not (lt == le == gt == ge == c3):
            return "ordering operators disagree about the error: %r" % (r[3:8],)
    else:
        c = toint(c3)
        if c not in (-1, 0, 1):
            return "std.__compare gives %s" % c3
        want = ["true" if z else "false" for z in (c < 0, c <= 0, c > 0, c >= 0)]
        if [lt, le, gt, ge] != want:
            return "< <= > >= (%r) not derived from __compare=%d" % ([lt, le, gt, ge], c)
    # __compare_array
    if a[0] in TYNAME and b[0] in TYNAME:
        if a[0] == "a" and b[0] == "a":
            if ca != c3:
                return "__compare_array (%s) differs from __compare (%s) on arrays" % (ca, c3)
        else:
            idx, t = (0, a) if a[0] != "a" else (1, b)
            want = "EInvalidStdFuncArgType:__compare_array/%d/%s" % (idx, TYNAME[t[0]])
            if ca != want:
                return "__compare_array on a non-array gives %s, expected %s" % (ca, want)
    # unordered kinds are an error, never an answer
    ue = unordered_error(a, b)
    if ue is not None and a[0] not in ("e",) and b[0] not in ("e",):
        if c3 != ue:
            return "comparing %s with %s gives %s, expected the error %s" % (TYNAME[a[0]], TYNAME[b[0]], c3, ue)
    if pure(a) and pure(b):
        da, db = dec(a), dec(b)
        want = da == db
        if tobool(eq) is not want:
            return "== gives %s but the JSON values are %s" % (eq, "equal" if want else "different")
        ref = ref_cmp(da, db)
        if ref is None:
            if toint(c3) is not None or not c3.startswith("ECompare"):
                return "values without an order compare to %s" % c3
        else:
            if toint(c3) != ref:
                return "__compare gives %s, reference order gives %d" % (c3, ref)
            if [lt == "true", eq == "true", gt == "true"].count(True) != 1:
                return "not exactly one of < == > holds: %r" % ([lt, eq, gt],)
            sa, sb = sort_of(da), sort_of(db)
            if sa is not False and sb is not False and unify(sa, sb) is not False:
                na, nb = native(da), native(db)
                if (lt == "true", eq == "true", gt == "true") != (na < nb, na == nb, na > nb):
                    return "disagrees with Python's comparison of the decoded values"
    return None


def pool_laws(vals, res):
    """Laws over all pairs / triples of one pool. res[i][j] = parsed answer for (vals[i], vals[j])."""
    n = len(vals)
    bad = []
    for i in range(n):
        if pure(vals[i]) and res[i][i][0] != "true":
            bad.append(("reflexivity: v == v gives %s" % res[i][i][0], [i, i]))
        for j in range(n):
            e1, e2 = res[i][j][0], res[j][i][0]
            if tobool(e1) is not None and e1 != e2:
                bad.append(("symmetry: a == b gives %s, b == a gives %s" % (e1, e2), [i, j]))
            c1, c2 = toint(res[i][j][7]), toint(res[j][i][7])
            if c1 is not None and c2 != -c1:
                bad.append(("antisymmetry: compare(a,b)=%s, compare(b,a)=%s" % (res[i][j][7], res[j][i][7]), [i, j]))
            if c1 is not None and tobool(e1) is not (c1 == 0):
                bad.append(("compare(a,b)=%d but a == b gives %s" % (c1, e1), [i, j]))
    for i in range(n):
        for j in range(n):
            if res[i][j][0] == "true":
                for k in range(n):
                    if res[j][k][0] == "true" and res[i][k][0] != "true":
                        bad.append(("transitivity of ==: a==b, b==c but a==c gives %s" % res[i][k][0], [i, j, k]))
            cij = toint(res[i][j][7])
            if cij is not None and cij <= 0:
                for k in range(n):
                    cjk = toint(res[j][k][7])
                    if cjk is not None and cjk <= 0:
                        cik = toint(res[i][k][7])
                        want = cij if cij != 0 else cjk
                        if cik != want:
                            bad.append(("transitivity of <=: compare(a,b)=%d, compare(b,c)=%d, compare(a,c)=%s"
                                        % (cij, cjk, res[i][k][7]), [i, j, k]))
    return bad


def inject_cases(rng, a, b):
    """From a pure pair of arrays (or objects) build variants with a failing element
    beyond / at-or-before the deciding position, with the expected outcome."""
    out = []
    da, db = dec(a), dec(b)
    if a[0] == "a" and b[0] == "a":
        xs, ys = list(a[1]), list(b[1])
        m = min(len(xs), len(ys))
        first = next((i for i in range(m) if da[1][i] != db[1][i]), None)
        # equality: length mismatch decides before anything is forced
        if len(xs) != len(ys) and xs:
            j = rng.randrange(len(xs))
            out.append((("a", tuple(xs[:j] + [("e",)] + xs[j + 1:])), b, "eq", "false", "unequal lengths"))
        if len(xs) == len(ys) and first is not None:
            for j in range(m):
                side = rng.random() < 0.5
                va = ("a", tuple(xs[:j] + [("e",)] + xs[j + 1:])) if side else a
                vb = b if side else ("a", tuple(ys[:j] + [("e",)] + ys[j + 1:]))
                out.append((va, vb, "eq", "false" if j > first else "EExplicitError",
                            "failing element at %d, first difference at %d" % (j, first)))
        if len(xs) == len(ys) and first is None and m:
            j = rng.randrange(m)
            out.append((("a", tuple(xs[:j] + [("e",)] + xs[j + 1:])), b, "eq", "EExplicitError", "equal arrays"))
        # ordering
        ref = ref_cmp(da, db)
        if ref is not None:
            decide = first if first is not None else m  # index at which the answer is known
            for j in range(max(len(xs), len(ys))):
                side = rng.random() < 0.5
                if side and j >= len(xs) or (not side) and j >= len(ys):
                    side = not side
                va = ("a", tuple(xs[:j] + [("e",)] + xs[j + 1:])) if side else a
                vb = b if side else ("a", tuple(ys[:j] + [("e",)] + ys[j + 1:]))
                if j < m and j <= decide:
                    want = "EExplicitError"
                else:
                    want = str(ref)
                out.append((va, vb, "cmp", want, "failing element at %d, decided at %d" % (j, decide)))
    if a[0] == "o" and b[0] == "o":
        fa, fb = visible_fields(a[1]), visible_fields(b[1])
        if [k for k, _ in fa] != [k for k, _ in fb]:
            if fa:
                k = rng.choice(fa)[0]
                out.append((("o", a[1] + (((k, ":", ("e",)),),)), b, "eq", "false", "different key sets"))
        elif fa:
            first = next((i for i in range(len(fa)) if da[1][i] != db[1][i]), None)
            for j in range(len(fa)):
                k = fa[j][0]
                va = ("o", a[1] + (((k, ":", ("e",)),),))
                if first is None or j <= first:
                    want = "EExplicitError"
                else:
                    want = "false"
                out.append((va, b, "eq", want, "failing field %s (#%d), first difference %r" % (k, j, first)))
    return out


# ---------------------------------------------------------------- run


def run(rep):
    rep.rule = ("pools of 6-8 related values (numbers incl. -0/0/2^53 neighbours, strings incl. prefixes, non-ASCII, "
                "U+FFFF vs U+10000, nested arrays of unequal length, objects with hidden fields and inheritance, "
                "functions, failing elements); every ordered pair of a pool goes through all nine operations; "
                "laws over all triples of a pool; plus pairs with a failing element injected beyond / at the "
                "deciding position; non-trivial = both values are strings/arrays/objects sharing a first "
                "element (common prefix >= 1); distinct by the pair's notation")
    rep.assumptions = ["numbers are modelled as integers (fractional literals are checked on the implementation "
                       "against Python floats only)",
                       "objects have no assert clauses; no self/super references in compared objects",
                       "a thunk is a value or a failure (its own evaluation is outside C08)"]
    vlib.prelude(rep, extra_modules=['RsjProps.C08Eval'])
    rng = rep.rng
    quick = rep.tier == "quick"
    npools = 70 if quick else 2500
    pools = [list(p) for p in CORPUS_POOLS]
    for _ in range(npools):
        pools.append(pool(rng, rng.choice([6, 7, 8])))
    # directed pool: the two zeros at every depth and position (equal as numbers, hence everywhere they occur)
    Z, NZ, ONE, TWO = ("n", 0), ("n", "-0"), ("n", 1), ("n", 2)
    A = lambda *xs: ("a", tuple(xs))
    pools.append([A(ONE, NZ, TWO), A(ONE, Z, TWO), A(ONE, Z, ("n", 3)), A(NZ), A(Z), A(("s", (0x61,)), NZ), A(("s", (0x61,)), Z),
                  A(A(ONE, NZ)), A(A(ONE, Z)), A(ONE, A(TWO, NZ), ONE), A(ONE, A(TWO, Z), ONE)])
    directed_pool = len(pools) - 1
    # implementation-only pools with fractional numbers
    dpools = []
    for _ in range(6 if quick else 150):
        vals = []
        for _ in range(7):
            r = rng.random()
            if r < 0.5:
                vals.append(("d", rng.choice(DNUMS)))
            elif r < 0.7:
                vals.append(g_num(rng))
            else:
                vals.append(("a", tuple((("d", rng.choice(DNUMS)) if rng.random() < 0.6 else g_num(rng))
                                        for _ in range(rng.choice([0, 1, 2, 3])))))
        dpools.append(vals)

    lines, meta = [], []
    for pi, vals in enumerate(pools + dpools):
        for i, a in enumerate(vals):
            for j, b in enumerate(vals):
                lines.append("cmp all %s %s" % (note(a), note(b)))
                meta.append(("pool", pi, i, j, a, b))
    # failing-element injection
    inj = []
    base_pairs = []
    for vals in pools:
        for a in vals:
            for b in vals:
                if a[0] == b[0] and a[0] in ("a", "o") and pure(a) and pure(b):
                    base_pairs.append((a, b))
    rng.shuffle(base_pairs)
    for a, b in base_pairs[: (400 if quick else 20000)]:
        for va, vb, kind, want, why in inject_cases(rng, a, b):
            lines.append("cmp all %s %s" % (note(va), note(vb)))
            meta.append(("inj", kind, want, why, va, vb))

    model_ok = ["d:" not in l for l in lines]
    io = vlib.impl(lines)
    mlines = [l for l, ok in zip(lines, model_ok) if ok]
    mo_it = iter(vlib.model(mlines))
    mo = [next(mo_it) if ok else None for ok in model_ok]

    npool = len(pools) + len(dpools)
    pres = [dict() for _ in range(npool)]
    cases_cmp, io_cmp, mo_cmp = [], [], []
    for line, mt, a_out, m_out in zip(lines, meta, io, mo):
        a, b = mt[-2], mt[-1]
        r = parse9(a_out)
        nontriv = common_prefix(a, b) if (a[0] in "sao" and b[0] in "sao") else False
        rep.count(line, nontriv, sample={"line": line, "impl": a_out} if nontriv else None)
        rep.bump("kind:%s/%s" % (a[0], b[0]))
        if r:
            rep.bump("eq:" + (r[0] if r[0] in ("true", "false") else "error"))
            rep.bump("cmp:" + (r[7] if toint(r[7]) is not None else r[7].split(":")[0]))
        bad = pair_oracle(a, b, r)
        if bad and r is None:
            w = a_out.split(" ")
            msg = vlib.unhx(w[1]).decode("utf-8", "replace") if (w[0] == "panic" and len(w) > 1) else a_out
            bad = "the implementation did not answer: " + msg[:160]
        if bad:
            rep.violation("cmp:" + line, bad, {"op": line, "impl": a_out, "a": a, "b": b})
        if mt[0] == "pool":
            pres[mt[1]][(mt[2], mt[3])] = r
        else:
            _, kind, want, why, _, _ = mt
            rep.bump("inject:" + kind + ":" + ("forced" if want.startswith("E") else "not-forced"))
            got = r[0] if (r and kind == "eq") else (r[7] if r else None)
            if got != want:
                rep.violation("inj:" + line, "laziness: %s -> %s gives %s, expected %s"
                              % (why, "==" if kind == "eq" else "__compare", got, want),
                              {"op": line, "impl": a_out, "inject": [kind, want]})
        if m_out is not None:
            cases_cmp.append({"key": line})
            io_cmp.append(a_out)
            mo_cmp.append(m_out)
        else:
            rep.bump("implementation-only (fractional)")
    # the comparison functions of the library called by parameter names answer like the positional calls
    idx = [k for k, mt in enumerate(meta) if mt[0] == "pool"]
    rng.shuffle(idx)
    idx = idx[: (300 if quick else 6000)]
    nio = vlib.impl([lines[k].replace("cmp all ", "cmp named ", 1) for k in idx])
    for k, n_out in zip(idx, nio):
        r = parse9(io[k])
        nm = n_out.split(",")
        rep.bump("named-argument calls")
        if r is None or len(nm) != 7:
            continue
        for what, got, want in (("std.equals(b=B, a=A)", nm[0], r[2]), ("std.equals(A, b=B)", nm[1], r[2]),
                                ("std.__compare(v2=B, v1=A)", nm[2], r[7]), ("std.__compare(A, v2=B)", nm[3], r[7]),
                                ("std.__compare_array(arr2=B, arr1=A)", nm[4], r[8]),
                                ("std.primitiveEquals(b=B, a=A)", nm[5], nm[6])):
            if got != want:
                rep.violation("named:" + lines[k], "%s answers %s, the positional call answers %s" % (what, got, want),
                              {"op": lines[k].replace("cmp all ", "cmp named ", 1), "impl": n_out, "positional": io[k]})
                break
    # operands bound to variables and fully evaluated before the comparison: same nine answers
    idx = [k for k, mt in enumerate(meta) if mt[0] == "pool" and pure(mt[-2]) and pure(mt[-1])]
    rng.shuffle(idx)
    must = [k for k in idx if meta[k][1] == directed_pool]
    idx = must + [k for k in idx if meta[k][1] != directed_pool][: (400 if quick else 8000)]
    fio = vlib.impl([lines[k].replace("cmp all ", "cmp forced ", 1) for k in idx])
    for k, f_out in zip(idx, fio):
        rep.bump("forced-operand comparisons")
        if f_out != io[k]:
            rep.violation("forced:" + lines[k], "comparison of operands that were evaluated beforehand answers %s, of fresh operands %s"
                          % (f_out[:120], io[k][:120]),
                          {"op": lines[k].replace("cmp all ", "cmp forced ", 1), "impl": f_out, "fresh": io[k]})
    for pi, vals in enumerate(pools + dpools):
        n = len(vals)
        if any(pres[pi].get((i, j)) is None for i in range(n) for j in range(n)):
            continue
        res = [[pres[pi][(i, j)] for j in range(n)] for i in range(n)]
        for desc, idx in pool_laws(vals, res)[:3]:
            vs = [note(vals[i]) for i in idx]
            rep.violation("law:" + " ".join(vs), desc, {"values": vs})
        rep.bump("pools")
        rep.bump("triples", n * n * n)
    vlib.compare(rep, cases_cmp, io_cmp, mo_cmp, label="cmp all (nine operations)")


def _tup(x):
    return tuple(_tup(y) for y in x) if isinstance(x, list) else x


def replay(r):
    vlib.build_harness()
    if "replay" not in r:
        # broken proof / model-implementation disagreement record
        rc = 1 if r.get("broken") else 0
        for b in r.get("broken", []):
            print("broken:", b.get("what"))
        for d in r.get("disagreements", []):
            line = d["replay"]["case"]["key"]
            x, y = vlib.impl([line])[0], vlib.model([line])[0]
            print(line)
            print("  impl :", x)
            print("  model:", y)
            if x != y:
                rc = 1
        return rc
    rp = r["replay"]
    if (rp.get("op") or "").startswith("cmp forced "):
        f = vlib.impl([rp["op"]])[0]
        a = vlib.impl([rp["op"].replace("cmp forced ", "cmp all ", 1)])[0]
        print(rp["op"]); print("  forced:", f); print("  fresh :", a)
        return 0 if f == a else 1
    if (rp.get("op") or "").startswith("cmp named "):
        named = vlib.impl([rp["op"]])[0]
        pos = vlib.impl([rp["op"].replace("cmp named ", "cmp all ", 1)])[0]
        print(rp["op"]); print("  named     :", named); print("  positional:", pos)
        nm, r9 = named.split(","), parse9(pos)
        ok = r9 is not None and len(nm) == 7 and (nm[0], nm[1], nm[2], nm[3], nm[4], nm[5]) == (r9[2], r9[2], r9[7], r9[7], r9[8], nm[6])
        return 0 if ok else 1
    if "values" in rp:
        vs = rp["values"]
        lines = ["cmp all %s %s" % (x, y) for x in vs for y in vs]
    else:
        lines = [rp.get("op") or rp["case"]["key"]]
    rc = 0
    a = vlib.impl(lines)
    bi = iter(vlib.model([l for l in lines if "d:" not in l]))
    for l, x in zip(lines, a):
        y = next(bi) if "d:" not in l else None
        print(l)
        print("  impl :", x)
        print("  model:", y)
        if y is not None and x != y:
            rc = 1
    if "a" in rp:
        bad = pair_oracle(_tup(rp["a"]), _tup(rp["b"]), parse9(a[0]))
        print("oracle:", bad)
        rc = 1 if bad else rc
    if "inject" in rp:
        kind, want = rp["inject"]
        r9 = parse9(a[0])
        got = r9[0] if (r9 and kind == "eq") else (r9[7] if r9 else None)
        print("laziness oracle: got %s, expected %s" % (got, want))
        rc = 1 if got != want else rc
    if "values" in rp:
        print("law violated on the implementation:", r.get("description"))
        n = len(rp["values"])
        res = [[parse9(a[i * n + j]) for j in range(n)] for i in range(n)]
        # laws that need no knowledge of the values' purity
        for i in range(n):
            for j in range(n):
                if tobool(res[i][j][0]) is not None and res[i][j][0] != res[j][i][0]:
                    rc = 1
                c1, c2 = toint(res[i][j][7]), toint(res[j][i][7])
                if c1 is not None and c2 != -c1:
                    rc = 1
                if res[i][j][0] == "true":
                    for k in range(n):
                        if res[j][k][0] == "true" and res[i][k][0] != "true":
                            rc = 1
                if c1 is not None and c1 <= 0:
                    for k in range(n):
                        cjk = toint(res[j][k][7])
                        if cjk is not None and cjk <= 0 and toint(res[i][k][7]) != (c1 if c1 != 0 else cjk):
                            rc = 1
        if "reflexivity" in (r.get("description") or "") and res[0][0][0] != "true":
            rc = 1
    return rc
