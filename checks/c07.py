"""C07 — object inheritance: associative, {} identity, late-bound self/super,
visibility rules, agreement of the field-existence views, std.objectRemoveKey.

Three families of cases, all derived from rep.rng:
  (A) model-language object expressions (driver op `obj`): implementation vs Lean model
      (correspondence) + direct oracles computed from the implementation's answers only;
  (B) richer Jsonnet (object locals, asserts, computed names, comprehensions, results of
      std.mergePatch / std.prune / std.mapWithKey / std.objectRemoveKey, nested `+:`),
      implementation-only oracles through the generic `eval` op;
  (C) instrumented chains with closed-form expected values for self / super / `in super`.
"""
import json
import vlib

POOL = ["a", "b", "c", "d"]
PROBES = POOL + ["e"]

# ---------------------------------------------------------------- trees / bracketings


def all_trees(lo, hi):
    """All binary bracketings over the atom indices lo..hi-1 (as nested tuples / ints)."""
    if hi - lo == 1:
        return [lo]
    out = []
    for m in range(lo + 1, hi):
        for l in all_trees(lo, m):
            for r in all_trees(m, hi):
                out.append((l, r))
    return out


def random_tree(rng, lo, hi):
    if hi - lo == 1:
        return lo
    m = rng.randrange(lo + 1, hi)
    return (random_tree(rng, lo, m), random_tree(rng, m, hi))


def left_tree(n):
    t = 0
    for i in range(1, n):
        t = (t, i)
    return t


# ---------------------------------------------------------------- (A) model language


def gen_field(rng, name):
    vis = rng.choice("dddhhv")
    plus = "1" if rng.random() < 0.25 else "0"
    r = rng.random()
    if r < 0.45:
        body = "l%d" % rng.randrange(1, 10)
    elif r < 0.65:
        body = rng.choice("sS") + rng.choice(POOL)
    elif r < 0.85:
        body = rng.choice("uU") + rng.choice(POOL)
    else:
        body = "i" + rng.choice(POOL)
    return "%s:%s:%s:%s" % (name, vis, plus, body)


def gen_layer(rng, maxf=4):
    k = rng.choice([0, 1, 1, 2, 2, 3, 4][: maxf + 3])
    names = rng.sample(PROBES if rng.random() < 0.1 else POOL, min(k, 4))
    return ["{"] + [gen_field(rng, n) for n in names] + ["}"]


def gen_atom(rng):
    r = rng.random()
    if r < 0.72:
        return gen_layer(rng)
    if r < 0.80:
        return ["{", "}"]
    if r < 0.91:
        return ["rm", rng.choice(POOL)] + gen_layer(rng)
    return ["rm", rng.choice(POOL), "+"] + gen_layer(rng) + gen_layer(rng)


def toks_of_tree(tree, atoms):
    if isinstance(tree, int):
        return list(atoms[tree])
    return ["+"] + toks_of_tree(tree[0], atoms) + toks_of_tree(tree[1], atoms)


def obj_line(toks):
    return "obj " + " ".join(toks) + " ? " + " ".join(PROBES)


def field_tokens(toks):
    return [t for t in toks if t.count(":") == 3]


def nontrivial_toks(toks):
    """>= 2 layers and >= 1 field name defined in two different layers."""
    layers = []
    cur = None
    for t in toks:
        if t == "{":
            cur = set()
        elif t == "}":
            layers.append(cur)
            cur = None
        elif cur is not None:
            cur.add(t.split(":")[0])
    seen = set()
    over = False
    for l in layers:
        if l & seen:
            over = True
        seen |= l
    return len(layers) >= 2 and over


def reads(toks, k):
    """Does any field body read field k (self / super / in super / k+:)?"""
    for t in field_tokens(toks):
        n, _, plus, body = t.split(":")
        if body[0] in "sSuUi" and body[1:] == k:
            return True
        if n == k and plus == "1":
            return True
    return False


def self_reads(toks, k):
    return any(t.split(":")[3] in ("s" + k, "S" + k) for t in field_tokens(toks))


def parse_obs(s):
    """'F=..|V=..|L=..|P=..|M=..' -> dict, or None when the driver failed."""
    if not s.startswith("F="):
        return None
    try:
        parts = dict(x.split("=", 1) for x in s.split("|"))
        F = [tuple(x.split("/")) for x in parts["F"].split(",")] if parts["F"] else []
        V = parts["V"].split(",") if parts["V"] else []
        P = {}
        for x in parts["P"].split(",") if parts["P"] else []:
            n, fl, val = x.split(":", 2)
            P[n] = (fl, val)
        m = parts["M"]
        if m.startswith("{"):
            M = [tuple(x.split(":")) for x in m[1:-1].split(",")] if len(m) > 2 else []
        else:
            M = m
        return {"F": F, "V": V, "L": int(parts["L"]), "P": P, "M": M}
    except Exception:
        return None


def is_err(v):
    return v.startswith("E")


def views_oracle(o):
    """The five existence views + manifestation agree (implementation answer only)."""
    Fn = [n for n, _ in o["F"]]
    if Fn != sorted(set(Fn)):
        return "objectFieldsAll not sorted/unique: %r" % (Fn,)
    vis = [n for n, v in o["F"] if v != "h"]
    if o["V"] != vis:
        return "objectFields %r != names that objectHas reports visible %r" % (o["V"], vis)
    if o["L"] != len(o["V"]):
        return "std.length %d != |objectFields| %d" % (o["L"], len(o["V"]))
    for n, (fl, val) in o["P"].items():
        if (fl[0] == "1") != (n in Fn):
            return "objectHasAll(%s)=%s but objectFieldsAll=%r" % (n, fl[0], Fn)
        if (fl[1] == "1") != (n in o["V"]):
            return "objectHas(%s)=%s but objectFields=%r" % (n, fl[1], o["V"])
        if fl[2] != fl[0]:
            return "`%s in o`=%s but objectHasAll=%s" % (n, fl[2], fl[0])
        if fl[0] == "0" and val != "Eunk." + n:
            return "field %s does not exist but o.%s -> %s" % (n, n, val)
    if isinstance(o["M"], list):
        if [n for n, _ in o["M"]] != o["V"]:
            return "manifested keys %r != objectFields %r" % ([n for n, _ in o["M"]], o["V"])
        for n, v in o["M"]:
            if n in o["P"] and o["P"][n][1] != v:
                return "manifested %s=%s but o.%s=%s" % (n, v, n, o["P"][n][1])
    else:
        errs = [o["P"][n][1] for n in o["V"] if n in o["P"] and is_err(o["P"][n][1])]
        if not errs:
            return "manifestation fails (%s) but every visible field evaluates" % o["M"]
        if errs[0] != o["M"]:
            return "manifestation error %s != first failing visible field %s" % (o["M"], errs[0])
    return None


def collapse(s):
    """Error kinds Enosuper / Eunk.x both become 'E' (used for `{} + A` only)."""
    if not s.startswith("F="):
        return s
    out = []
    for part in s.split("|"):
        k, v = part.split("=", 1)
        if k == "P":
            v = ",".join(":".join(x.split(":")[:2] + ["E" if is_err(x.split(":", 2)[2]) else x.split(":", 2)[2]])
                         for x in v.split(",")) if v else v
        elif k == "M" and is_err(v):
            v = "E"
        out.append(k + "=" + v)
    return "|".join(out)


def entry(o, n):
    for m, v in o["F"]:
        if m == n:
            return v
    return None


def oracle_assoc(lines, outs):
    for l, a in zip(lines[1:], outs[1:]):
        if a != outs[0]:
            return "bracketings observe differently:\n  %s\n   -> %s\n  %s\n   -> %s" % (lines[0], outs[0], l, a)
    return None


def oracle_ident(lines, outs):
    if outs[1] != outs[0]:
        return "A + {} differs from A: %s vs %s" % (outs[1], outs[0])
    if collapse(outs[2]) != collapse(outs[0]):
        return "{} + A differs from A: %s vs %s" % (outs[2], outs[0])
    return None


def oracle_rm(meta, outs):
    k = meta["k"]
    o = [parse_obs(x) for x in outs]
    if any(x is None for x in o):
        return "driver failure: %r" % [x[:60] for x, y in zip(outs, o) if y is None]
    E, R, B, RB, EB, BR, BE = o
    if R["F"] != [(n, v) for n, v in E["F"] if n != k]:
        return "objectRemoveKey(E,%s): fields %r, E had %r" % (k, R["F"], E["F"])
    if R["P"][k] != ("000", "Eunk." + k):
        return "removed key %s still observable: %r" % (k, R["P"][k])
    if not meta["self_reads_E"]:
        for n in R["P"]:
            if n != k and R["P"][n][1] != E["P"][n][1]:
                return "objectRemoveKey(E,%s) changed value of %s: %s -> %s" % (k, n, E["P"][n][1], R["P"][n][1])
    for name, X, Y in (("removeKey(E)+B", RB, EB), ("B+removeKey(E)", BR, BE)):
        for n in PROBES:
            if n == k:
                if entry(X, k) != entry(B, k):
                    return "%s: key %s has visibility %r, B alone gives %r" % (name, k, entry(X, k), entry(B, k))
            elif entry(X, n) != entry(Y, n):
                return "%s: field %s visibility %r, without removal %r" % (name, n, entry(X, n), entry(Y, n))
            if n != k and not meta["reads_EB"] and X["P"][n][1] != Y["P"][n][1]:
                return "%s: value of %s changed %s -> %s" % (name, n, Y["P"][n][1], X["P"][n][1])
    return None


# ---------------------------------------------------------------- (B) rich Jsonnet


def rich_value(rng, depth=0):
    r = rng.random()
    if r < 0.55 or depth > 0:
        return str(rng.randrange(0, 6)), set()
    if r < 0.7:
        return "{ x: %d }" % rng.randrange(3), set()
    if r < 0.8:
        return "[%d]" % rng.randrange(3), set()
    if r < 0.9:
        n = rng.choice(POOL)
        return "self.%s" % n, {n}
    return "null", set()


def rich_atom(rng):
    """-> (jsonnet text, set of names read through self)"""
    r = rng.random()
    rd = set()
    if r < 0.25:  # literal, three visibilities, +:, super
        fs = []
        for n in rng.sample(POOL, rng.randrange(0, 4)):
            vis = rng.choice([":", ":", "::", ":::"])
            plus = "+" if rng.random() < 0.3 else ""
            q = rng.random()
            if q < 0.15:
                m = rng.choice(POOL)
                body = "(if '%s' in super then super.%s else 7)" % (m, m)
            elif q < 0.25:
                m = rng.choice(POOL)
                body = "super[%s]" % vlib.jsonnet_str(m)
            elif q < 0.35:
                body = "{ y: 1, z: (if 'x' in super then super.x else -1), w: std.length(self) }"
            else:
                body, r2 = rich_value(rng)
                rd |= r2
            fs.append("%s%s%s %s" % (n, plus, vis, body))
        return "{ " + ", ".join(fs) + " }", rd
    if r < 0.37:  # object locals
        n1, n2 = rng.sample(POOL, 2)
        rd.add(n1)
        return "{ local t = %d, local u = self.%s, %s: t, %s:: [t, u] }" % (rng.randrange(5), n1, n1, n2), rd
    if r < 0.49:  # asserts
        n1, n2 = rng.sample(POOL, 2)
        rd.add(n1)
        kind = rng.random()
        if kind < 0.5:
            return "{ assert std.objectHasAll(self, '%s') : 'need %s', %s: 1 }" % (n1, n1, n2), rd
        return "{ assert self.%s != 3, %s: %d, %s+: 1 }" % (n1, n1, rng.randrange(5), n2), rd
    if r < 0.61:  # computed field names
        n1, n2, n3 = rng.sample(POOL, 3)
        return ("(local p = '%s'; { local q = 2, [p]: q - 1, [if %s then '%s']:: q, ['%s' + '']::: 3 })"
                % (n1, rng.choice(["true", "false"]), n2, n3)), rd
    if r < 0.71:  # comprehension
        ns = rng.sample(POOL, rng.randrange(0, 4))
        return "{ [k]: std.length(k) + %d for k in %s }" % (rng.randrange(3), json.dumps(ns)), rd
    if r < 0.79:
        n1, n2, n3 = rng.sample(POOL, 3)
        return ("std.mergePatch({ %s: 1, %s:: 2, %s: { x: 1, q: 2 } }, { %s: null, %s: { x: null, y: 3 } })"
                % (n1, n2, n3, rng.choice([n1, n2]), n3)), rd
    if r < 0.86:
        n1, n2, n3 = rng.sample(POOL, 3)
        return "std.prune({ %s: null, %s: %d, %s: { x: {} }, e:: 1 })" % (n1, n2, rng.randrange(4), n3), rd
    if r < 0.93:
        n1, n2 = rng.sample(POOL, 2)
        return "std.mapWithKey(function(k, v) [k, v], { %s: 1, %s:: 2, e::: 3 })" % (n1, n2), rd
    n1, n2, n3 = rng.sample(POOL, 3)
    k = rng.choice([n1, n2, "e"])
    return "std.objectRemoveKey({ %s: 1, %s:: 2, %s::: 3 }, '%s')" % (n1, n2, n3, k), rd


def rich_expr(tree, atoms):
    if isinstance(tree, int):
        return atoms[tree][0]
    return "(%s + %s)" % (rich_expr(tree[0], atoms), rich_expr(tree[1], atoms))


VIEWS_PRE = (
    "local ps = %s;\n"
    "local vis(o, n) = if !std.objectHas(o, n) then 'h' else if std.objectHas({ [n]:: 0 } + o, n) then 'v' else 'd';\n"
    "local views(o) = { fields: std.objectFields(o), all: [[n, vis(o, n)] for n in std.objectFieldsAll(o)],\n"
    "  len: std.length(o), has: [std.objectHas(o, n) for n in ps], hasAll: [std.objectHasAll(o, n) for n in ps],\n"
    "  'in': [n in o for n in ps] };\n" % json.dumps(PROBES)
)


def rich_views_oracle(v, man):
    alln = [n for n, _ in v["all"]]
    if alln != sorted(set(alln)):
        return "objectFieldsAll not sorted/unique %r" % alln
    visn = [n for n, x in v["all"] if x != "h"]
    if v["fields"] != visn:
        return "objectFields %r vs objectHas-visible %r" % (v["fields"], visn)
    if v["len"] != len(v["fields"]):
        return "std.length %r vs objectFields %r" % (v["len"], v["fields"])
    if v["hasAll"] != [n in alln for n in PROBES]:
        return "objectHasAll %r vs objectFieldsAll %r" % (v["hasAll"], alln)
    if v["has"] != [n in v["fields"] for n in PROBES]:
        return "objectHas %r vs objectFields %r" % (v["has"], v["fields"])
    if v["in"] != v["hasAll"]:
        return "`in` %r vs objectHasAll %r" % (v["in"], v["hasAll"])
    if man is not None and list(man.keys()) != v["fields"]:
        return "manifested keys %r vs objectFields %r" % (list(man.keys()), v["fields"])
    return None


def ev(res):
    """eval-op answer -> ('ok', parsed json) | ('err', kind)"""
    p = vlib.parse_eval(res)
    if p[0] == "ok":
        try:
            return ("ok", json.loads(p[1]))
        except Exception:
            return ("bad", p[1][:200])
    if p[0] == "err":
        return ("err", p[2], p[3])
    return ("bad", res[:200])


# ---------------------------------------------------------------- (C) instrumented chains


def instr_case(rng):
    """Chain of n objects, each `t+: [i]`, `who: i`, hidden late-bound probes; random
    bracketing, `{}` inserted anywhere, std.objectRemoveKey(…, 't') around random subtrees.
    Expected values are closed-form."""
    n = rng.randrange(2, 6)
    nested = rng.random() < 0.3

    def atom(i):
        body = ("t+: [%d], who: %d, ['seen%d']:: self.who, ['below%d']:: (if 'who' in super then super.who else -1), "
                "['tin%d']:: ('t' in super), ['sup%d']:: (if 't' in super then super.t else [])" % (i, i, i, i, i, i))
        return "{ %s }" % body

    tree = random_tree(rng, 0, n)
    spans = []   # atom sets hidden (for the name t) from everything outside the set

    def render(t):
        if isinstance(t, int):
            s = atom(t)
            span = {t}
        else:
            ls, lspan = render(t[0])
            rs, rspan = render(t[1])
            s = "(%s + %s)" % (ls, rs)
            span = lspan | rspan
        q = rng.random()
        if q < 0.12:
            s = "std.objectRemoveKey(%s, 't')" % s
            spans.append(set(span))
        elif q < 0.2:
            s = "(%s + {})" % s
        elif q < 0.28:
            s = "({} + %s)" % s
        elif q < 0.33:
            s = "std.objectRemoveKey(%s, 'zz')" % s
        return s, span

    text, _ = render(tree)

    def sees(i, j):
        """layer of atom j is reachable by a lookup of t starting outside/above from atom i
        (i = n: from the top of the final object)"""
        return all(i in sp for sp in spans if j in sp)

    exp = {}
    top_t = [j for j in range(n) if sees(n, j)]
    if top_t:
        exp["t"] = top_t
    exp["who"] = n - 1
    for i in range(n):
        exp["seen%d" % i] = n - 1
        exp["below%d" % i] = i - 1 if i > 0 else -1
        below = [j for j in range(i) if sees(i, j)]
        exp["tin%d" % i] = bool(below)
        exp["sup%d" % i] = below
    names = sorted(set(exp.keys()) | {"t"})
    if nested:
        src = "local o = ({ n: {} } + { n+: %s }).n;\n" % text
    else:
        src = "local o = %s;\n" % text
    src += "{ [k]: o[k] for k in %s if std.objectHasAll(o, k) }" % json.dumps(names)
    return src, exp


# ---------------------------------------------------------------- run


def run(rep):
    rep.rule = ("(A) chains of 2-5 generated objects (0-4 fields from the pool a-e, three visibilities, +:, "
                "self/super/super[e]/in super, {} and std.objectRemoveKey atoms) in every bracketing, with {} on both "
                "sides and objectRemoveKey at every position; (B) rich Jsonnet atoms (locals, asserts, computed names, "
                "comprehensions, mergePatch/prune/mapWithKey/objectRemoveKey results, nested +:) in every bracketing; "
                "(C) instrumented chains with closed-form self/super expectations. Non-trivial = >= 2 layers and >= 1 "
                "field name defined in two layers; distinct by request text")
    rep.assumptions = [
        "layer FHashMap modelled as association list (keys unique in the implementation)",
        "get_fields_order's per-layer BTreeMap fold modelled as the same state machine run per name",
        "field values restricted to the model's expression language (ints, self.f, super.f, 'f' in super, +:) for the "
        "model/implementation comparison; richer Jsonnet is covered by implementation-only oracles",
        "numbers stay far below 2^53 (f64 exact)",
    ]
    vlib.prelude(rep, extra_modules=['RsjProps.C07Eval'])
    rng = rep.rng
    quick = rep.tier == "quick"
    n_chains = 260 if quick else 9000
    n_rich = 300 if quick else 8000
    n_instr = 400 if quick else 10000

    # ---------------- (A)
    groups = []   # (kind, meta, [lines])
    corpus = [
        # F6 witness: removeKey({f:: 2}, 'f') + {f: 1}
        (["rm", "f", "{", "f:h:0:l2", "}"], ["{", "f:d:0:l1", "}"]),
        (["{", "a:d:0:l1", "b:h:0:sa", "}"], ["{", "a:d:0:l2", "c:v:1:ua", "}"], ["{", "a:h:1:l5", "d:d:0:Ua", "}"]),
        (["{", "a:h:0:l1", "}"], ["rm", "a", "{", "a:v:0:l2", "}"], ["{", "a:d:1:l3", "b:d:0:ia", "}"]),
        (["rm", "a", "+", "{", "a:h:0:l1", "}", "{", "a:d:0:l1", "}"], ["{", "a:d:0:l4", "}"], ["rm", "a", "{", "}"],
         ["{", "a:d:1:sa", "}"]),
    ]
    chains = [list(c) for c in corpus]
    for _ in range(n_chains):
        chains.append([gen_atom(rng) for _ in range(rng.choice([2, 3, 3, 3, 4, 4, 5]))])
    for atoms in chains:
        n = len(atoms)
        trees = all_trees(0, n)
        if n == 5 and quick:
            trees = rng.sample(trees, 6)
        lines = [obj_line(toks_of_tree(t, atoms)) for t in trees]
        groups.append(("assoc", {}, lines))
        base = toks_of_tree(rng.choice(trees), atoms)
        groups.append(("ident", {}, [obj_line(base), obj_line(["+"] + base + ["{", "}"]),
                                     obj_line(["+", "{", "}"] + base)]))
        # removeKey at every position of the chain (prefix objects E = atoms[:p], B = atoms[p:])
        for p in range(1, n + 1):
            E = toks_of_tree(left_tree(p), atoms[:p])
            B = toks_of_tree(left_tree(n - p), atoms[p:]) if p < n else gen_layer(rng)
            k = rng.choice(POOL)
            R = ["rm", k] + E
            meta = {"k": k, "self_reads_E": self_reads(E, k), "reads_EB": reads(E + B, k)}
            groups.append(("rm", meta, [obj_line(E), obj_line(R), obj_line(B), obj_line(["+"] + R + B),
                                        obj_line(["+"] + E + B), obj_line(["+"] + B + R), obj_line(["+"] + B + E)]))
    all_lines = []
    for _, _, ls in groups:
        all_lines.extend(ls)
    uniq = sorted(set(all_lines))
    io = dict(zip(uniq, vlib.impl(uniq)))
    mo = dict(zip(uniq, vlib.model(uniq)))
    for l in uniq:
        toks = l.split(" ")[1:]
        toks = toks[: toks.index("?")]
        nt = nontrivial_toks(toks)
        a = io[l]
        rep.count(l, nt, sample={"request": l, "impl": a[:300]} if nt else None)
        rep.bump("A.requests")
        rep.bump("A.removeKey-nodes", toks.count("rm"))
        rep.bump("A.plus-fields", sum(1 for t in field_tokens(toks) if t.split(":")[2] == "1"))
        rep.bump("A.error-values", a.count(":E"))
        o = parse_obs(a)
        if o is None:
            rep.violation("obj:" + l, "driver failure: " + a[:200], {"kind": "views", "lines": [l]})
            continue
        bad = views_oracle(o)
        if bad:
            rep.violation("views:" + l, bad, {"kind": "views", "lines": [l], "impl": a})
        if a != mo[l]:
            rep.disagreement(l, "object observation: implementation and model differ",
                             {"kind": "views", "lines": [l], "impl": a[:2000], "model": mo[l][:2000]})
    for kind, meta, ls in groups:
        outs = [io[l] for l in ls]
        rep.bump("A.group." + kind)
        if kind == "assoc":
            bad = oracle_assoc(ls, outs)
        elif kind == "ident":
            bad = oracle_ident(ls, outs)
        else:
            bad = oracle_rm(meta, outs)
        if bad:
            rep.violation(kind + ":" + ls[0], bad, {"kind": kind, "meta": meta, "lines": ls})

    # ---------------- (B)
    progs = []   # (group id, role, src)
    bgroups = []
    for gi in range(n_rich):
        n = rng.choice([2, 3, 3, 4])
        atoms = [rich_atom(rng) for _ in range(n)]
        trees = all_trees(0, n)
        exprs = [rich_expr(t, atoms) for t in trees]
        k = rng.choice(POOL)
        rd = set().union(*[a[1] for a in atoms])
        g = {"exprs": exprs, "k": k, "self_reads_k": k in rd, "src": []}
        e0 = exprs[0]
        for e in exprs:
            g["src"].append(("man", e))
            g["src"].append(("views", VIEWS_PRE + "views(%s)" % e))
        g["src"].append(("man", "(%s + {})" % e0))
        g["src"].append(("views", VIEWS_PRE + "views(%s + {})" % e0))
        g["src"].append(("man", "({} + %s)" % e0))
        g["src"].append(("views", VIEWS_PRE + "views({} + %s)" % e0))
        g["src"].append(("man", "std.objectRemoveKey(%s, '%s')" % (e0, k)))
        g["src"].append(("views", VIEWS_PRE + "views(std.objectRemoveKey(%s, '%s'))" % (e0, k)))
        bgroups.append(g)
    blines = []
    for g in bgroups:
        for _, s in g["src"]:
            blines.append(vlib.eval_line(s))
    bout = vlib.impl(blines)
    pos = 0
    for g in bgroups:
        res = [ev(bout[pos + i]) for i in range(len(g["src"]))]
        lines = blines[pos: pos + len(g["src"])]
        pos += len(g["src"])
        key = "rich:" + g["exprs"][0]
        nontriv = g["exprs"][0].count("+ ") >= 1
        rep.count(key, nontriv)
        rep.bump("B.groups")
        rep.bump("B.manifest-errors", sum(1 for r in res[0:1] if r[0] == "err"))
        bad = rich_oracle(g, res)
        if bad:
            rep.violation(key, bad, {"kind": "rich", "k": g["k"], "self_reads_k": g["self_reads_k"],
                                     "nexprs": len(g["exprs"]), "lines": lines})

    # ---------------- (C)
    cases = [instr_case(rng) for _ in range(n_instr)]
    clines = [vlib.eval_line(s) for s, _ in cases]
    cout = vlib.impl(clines)
    for (src, exp), line, a in zip(cases, clines, cout):
        rep.count("instr:" + src, True)
        rep.bump("C.chains")
        r = ev(a)
        if r[0] != "ok" or r[1] != exp:
            rep.violation("instr:" + src, "late binding: expected %s got %s" % (json.dumps(exp, sort_keys=True),
                                                                               json.dumps(r[1], sort_keys=True) if r[0] == "ok" else r),
                          {"kind": "instr", "lines": [line], "expect": exp, "src": src})

    # ---------------- (D) an object used (forced, manifested, assert-checked) before AND after being extended:
    # `self`/`$`/asserts must be those of each final combination (closed-form expectations, lead's templates)
    import gen_core as G
    import core_cmp as C
    lb = G.late_binding_cases(rng, 150 if quick else 5000)
    lsrc = [G.to_jsonnet(p) for p, _ in lb]
    lout = [C.canon_impl(x) for x in vlib.impl([vlib.eval_line(x) for x in lsrc])]
    for (p, exp), src, a in zip(lb, lsrc, lout):
        rep.count("lb:" + src, True)
        rep.bump("D.forced-then-extended")
        want = "ok " + C.canon_json(exp[1]) if exp[0] == "ok" else "err eval %s %s" % (exp[1], vlib.hx(exp[2]))
        if C.norm(a) != C.norm(want):
            rep.violation("lb:" + src, "object forced before extension: expected %s, implementation answered %s" % (want[:120], a[:120]),
                          {"kind": "lb", "lines": [vlib.eval_line(src)], "src": src, "expected": want})


def rich_oracle(g, res):
    ne = len(g["exprs"])
    if any(r[0] == "bad" for r in res):
        return "driver failure %r" % [r for r in res if r[0] == "bad"][:1]
    mans = res[0: 2 * ne: 2]
    views = res[1: 2 * ne: 2]
    for v in views:
        if v[0] != "ok":
            return "views program failed: %r" % (v,)
    # associativity: every bracketing manifests identically (errors: same kind and detail)
    for i in range(1, ne):
        if mans[i] != mans[0]:
            return "bracketings manifest differently: %s -> %r ; %s -> %r" % (g["exprs"][0], mans[0], g["exprs"][i], mans[i])
        if views[i] != views[0]:
            return "bracketings differ in field views: %r vs %r" % (views[0], views[i])
    m0 = mans[0]
    bad = rich_views_oracle(views[0][1], m0[1] if m0[0] == "ok" else None)
    if bad:
        return "views disagree on %s: %s" % (g["exprs"][0], bad)
    # identity
    mr, vr, ml, vl, mk, vk = res[2 * ne: 2 * ne + 6]
    if vr != views[0] or vl != views[0]:
        return "{} changes the field views: %r / %r vs %r" % (vr, vl, views[0])
    if mr != m0:
        return "A + {} manifests %r, A manifests %r" % (mr, m0)
    if (ml[0] != m0[0]) or (ml[0] == "ok" and ml != m0):
        return "{} + A manifests %r, A manifests %r" % (ml, m0)
    # removeKey
    k = g["k"]
    if vk[0] != "ok":
        return "views of objectRemoveKey failed %r" % (vk,)
    bad = rich_views_oracle(vk[1], mk[1] if mk[0] == "ok" else None)
    if bad:
        return "views disagree after objectRemoveKey: " + bad
    if vk[1]["all"] != [x for x in views[0][1]["all"] if x[0] != k]:
        return "objectRemoveKey(%s): fields %r, before %r" % (k, vk[1]["all"], views[0][1]["all"])
    if not g["self_reads_k"] and m0[0] == "ok":
        want = {n: v for n, v in m0[1].items() if n != k}
        if mk[0] != "ok" or mk[1] != want:
            return "objectRemoveKey(%s) changed other fields: %r vs %r" % (k, mk, want)
    return None


def replay(r):
    rec = r["replay"]
    vlib.build_harness()
    lines = rec["lines"]
    outs = vlib.impl(lines)
    kind = rec.get("kind")
    rc = 0
    for l, a in zip(lines, outs):
        print("request:", l[:300])
        print("impl   :", a[:600])
        if l.startswith("obj "):
            b = vlib.model([l])[0]
            print("model  :", b[:600])
            if a != b:
                rc = 1
            o = parse_obs(a)
            bad = views_oracle(o) if o else "driver failure"
            if bad:
                print("views oracle:", bad)
                rc = 1
    bad = None
    if kind == "assoc":
        bad = oracle_assoc(lines, outs)
    elif kind == "ident":
        bad = oracle_ident(lines, outs)
    elif kind == "rm":
        bad = oracle_rm(rec["meta"], outs)
    elif kind == "rich":
        ne = rec["nexprs"]
        g = {"exprs": ["<bracketing %d>" % i for i in range(ne)], "k": rec["k"], "self_reads_k": rec["self_reads_k"]}
        bad = rich_oracle(g, [ev(a) for a in outs])
    elif kind == "instr":
        rr = ev(outs[0])
        if rr[0] != "ok" or rr[1] != rec["expect"]:
            bad = "expected %r got %r" % (rec["expect"], rr)
    elif kind == "lb":
        import core_cmp as C
        got = C.canon_impl(outs[0])
        if C.norm(got) != C.norm(rec["expected"]):
            bad = "expected %s got %s" % (rec["expected"][:200], got[:200])
    print("oracle:", bad)
    return 1 if (bad or rc) else 0
