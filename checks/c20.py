"""C20 — parsing, encoding and hashing builtins compute the standard functions.

Families (each with a direct Python oracle that does not use the Lean model):
  radix     std.parseOctal / std.parseHex   vs float(int(s, r))   (+ model)
  parseint  std.parseInt                    vs float(int(s))      (+ model)
  b64*      std.base64 / base64Decode[Bytes] vs RFC 4648 + base64 (+ model)
  utf8*     std.encodeUTF8 / decodeUTF8     vs str.encode / bytes.decode(.., 'replace') (+ model)
  esc       std.escapeString{Bash,Dollars,XML,Json,Python} vs shlex / html.unescape / json / ast (+ model)
  hash      std.md5/sha1/sha256/sha512/sha3 vs hashlib; hash_to_hex_string model vs hashlib digests
  json      std.parseJson                   vs Python json made strict (RFC 8259, no duplicate keys)
  yaml      std.parseYaml totality; parseYaml == parseJson on JSON documents (no tabs, no surrogate pairs, depth < 100)
"""
import ast
import base64
import hashlib
import html
import json
import re
import shlex
import struct
import sys

import vlib

H = vlib.hx

# ----------------------------------------------------------------------------
# oracles
# ----------------------------------------------------------------------------


def f64bits(f):
    return "%016x" % struct.unpack(">Q", struct.pack(">d", f))[0]


def oracle_radix(r, s):
    if s == "":
        return "err empty"
    digs = "01234567" if r == 8 else "0123456789abcdefABCDEF"
    for ch in s:
        if ch not in digs:
            return "err digit " + H(ch)
    try:
        f = float(int(s, r))  # int -> float is correctly rounded (ties to even)
    except OverflowError:
        return "err overflow"
    return "ok " + f64bits(f)


def oracle_parseint(s):
    neg = s.startswith("-")
    sub = s[1:] if neg else s
    if sub == "":
        return "err empty"
    for ch in sub:
        if not ("0" <= ch <= "9"):
            return "err digit " + H(ch)
    try:
        f = float(int(sub))
    except OverflowError:
        return "err overflow"
    b = struct.unpack(">Q", struct.pack(">d", f))[0]
    if neg:
        b |= 1 << 63
    return "ok %016x" % b


B64ALPHA = "ABCDEFGHIJKLMNOPQRSTUVWXYZabcdefghijklmnopqrstuvwxyz0123456789+/"
B64RE = re.compile(r"(?:[A-Za-z0-9+/]{4})*(?:[A-Za-z0-9+/]{2}==|[A-Za-z0-9+/]{3}=)?\Z")


def oracle_b64dec(s, as_string):
    """RFC 4648 section 4: groups of 4 alphabet characters, padding only at the end."""
    if len(s) % 4 != 0:
        return "err length"
    if B64RE.match(s):
        bs = base64.b64decode(s, validate=True)
        if as_string:
            return "ok " + H(bs.decode("latin-1"))
        return "ok " + H(bs)
    # first character that is not allowed where it stands (s is not empty here)
    n = len(s)
    for ch in s[:n - 2]:
        if ch not in B64ALPHA:
            return "err char " + H(ch)
    c2, c3 = s[n - 2], s[n - 1]
    if c3 == "=" or c2 not in B64ALPHA:
        return "err char " + H(c2)   # (c2 == '=' and c3 == '=' cannot reach this point)
    return "err char " + H(c3)


def oracle_b64enc(bs):
    return "ok " + H(base64.b64encode(bs).decode("ascii"))


def oracle_b64encs(s):
    if any(ord(c) > 255 for c in s):
        return "err codepoint"
    return "ok " + H(base64.b64encode(s.encode("latin-1")).decode("ascii"))


def oracle_utf8enc(s):
    return "ok " + H(s.encode("utf-8"))


def oracle_utf8dec(bs):
    return "ok " + H(bs.decode("utf-8", "replace"))


XML_ENT = {"lt": "<", "gt": ">", "amp": "&", "quot": '"', "apos": "'"}


def xml_unescape_strict(t):
    out = []
    i = 0
    while i < len(t):
        ch = t[i]
        if ch == "&":
            j = t.find(";", i)
            if j < 0 or t[i + 1:j] not in XML_ENT:
                return None
            out.append(XML_ENT[t[i + 1:j]])
            i = j + 1
        elif ch in "<>\"'":
            return None
        else:
            out.append(ch)
            i += 1
    return "".join(out)


def dollars_unescape_strict(t):
    out = []
    i = 0
    while i < len(t):
        if t[i] == "$":
            if i + 1 < len(t) and t[i + 1] == "$":
                out.append("$")
                i += 2
            else:
                return None
        else:
            out.append(t[i])
            i += 1
    return "".join(out)


def oracle_esc(kind, s, answer):
    """Direct check of an escaper answer `ok <hex>`: returns None or a description."""
    if not answer.startswith("ok "):
        return "escaper failed: " + answer[:80]
    t = vlib.unhx(answer[3:]).decode("utf-8")
    try:
        if kind == "bash":
            if shlex.split(t) != [s]:
                return "shlex.split(escapeStringBash(s)) != [s]"
            if not (t.startswith("'") and t.endswith("'")):
                return "escapeStringBash result is not a single-quoted word"
        elif kind == "dollars":
            if dollars_unescape_strict(t) != s:
                return "escapeStringDollars does not invert ($$ -> $)"
            if t != s.replace("$", "$$"):
                return "escapeStringDollars != s.replace('$','$$')"
        elif kind == "xml":
            if xml_unescape_strict(t) != s:
                return "strict XML unescape of escapeStringXML(s) != s"
            if html.unescape(t) != s:
                return "html.unescape(escapeStringXML(s)) != s"
        elif kind == "json":
            if json.loads(t) != s:
                return "json.loads(escapeStringJson(s)) != s"
            if any(ord(c) < 0x20 for c in t):
                return "escapeStringJson left a raw control character"
        elif kind == "python":
            if "\x00" in t or "\n" in t or "\r" in t:
                return "escapeStringPython left a raw NUL / line break"
            if ast.literal_eval(t) != s:
                return "ast.literal_eval(escapeStringPython(s)) != s"
    except Exception as e:  # oracle could not even read the text
        return "%s oracle rejected the escaped text: %s" % (kind, e)
    return None


HASHES = {"md5": hashlib.md5, "sha1": hashlib.sha1, "sha256": hashlib.sha256,
          "sha512": hashlib.sha512, "sha3": hashlib.sha3_512}


def oracle_hash(kind, s):
    return "ok " + H(HASHES[kind](s.encode("utf-8")).hexdigest())


# --- JSON -------------------------------------------------------------------

class Dup(Exception):
    pass


def _pairs(ps):
    d = {}
    for k, v in ps:
        if k in d:
            raise Dup(k)
        d[k] = v
    return d


def _const(c):
    raise ValueError("constant " + c)


def has_surrogate(v):
    if isinstance(v, str):
        return any(0xD800 <= ord(c) <= 0xDFFF for c in v)
    if isinstance(v, list):
        return any(has_surrogate(x) for x in v)
    if isinstance(v, dict):
        return any(has_surrogate(k) or has_surrogate(x) for k, x in v.items())
    return False


def has_inf(v):
    if isinstance(v, float):
        return v != v or v in (float("inf"), float("-inf"))
    if isinstance(v, list):
        return any(has_inf(x) for x in v)
    if isinstance(v, dict):
        return any(has_inf(x) for x in v.values())
    return False


def json_oracle(doc):
    """-> ('value', v) | ('reject', why) | ('limit', why).

    'value': an RFC 8259 text without duplicate member names.
    'limit': grammatical RFC 8259 text that hits a limit RFC 8259 section 9 lets an
             implementation set (number range; character contents of strings =
             lone surrogate escapes, which no Jsonnet string can hold): must be rejected."""
    try:
        v = json.loads(doc, parse_constant=_const, object_pairs_hook=_pairs,
                       parse_int=float, parse_float=float)
    except Dup as e:
        return ("reject", "duplicate key")
    except RecursionError:
        return ("skip", "python recursion")
    except ValueError as e:
        return ("reject", str(e)[:60])
    sur, inf = has_surrogate(v), has_inf(v)
    if sur and inf:
        return ("limit", "lone surrogate and number overflow")
    if sur:
        return ("limit", "lone surrogate")
    if inf:
        return ("limit", "number overflow")
    return ("value", v)


def same_value(a, b):
    if isinstance(a, float) and isinstance(b, float):
        return a == b
    if type(a) != type(b):
        return False
    if isinstance(a, list):
        return len(a) == len(b) and all(same_value(x, y) for x, y in zip(a, b))
    if isinstance(a, dict):
        return a.keys() == b.keys() and all(same_value(a[k], b[k]) for k in a)
    return a == b


JSON_SRC = "std.manifestJsonMinified(std.parseJson(std.extVar('s')))"
YAML_SRC = "std.manifestJsonMinified(std.parseYaml(std.extVar('s')))"
YAML_TYPE_SRC = "std.type(std.parseYaml(std.extVar('s')))"


def eval_line(src, s, **opts):
    return vlib.eval_line(src, mode="str", **opts) + " extstr:%s=%s" % (H("s"), H(s))


def read_manifest(ans):
    """impl answer of JSON_SRC / YAML_SRC -> ('value', v) | ('err', msg) | ('bad', text)"""
    p = vlib.parse_eval(ans)
    if p[0] == "ok":
        try:
            return ("value", json.loads(p[1], parse_int=float, parse_float=float))
        except (ValueError, RecursionError) as e:
            return ("bad", "unreadable manifest: %s" % e)
    if p[0] == "err":
        return ("err", "%s/%s: %s" % (p[1], p[2], p[3]))
    return ("bad", ans[:200])


# ----------------------------------------------------------------------------
# generators
# ----------------------------------------------------------------------------

ODD_CHARS = ["g", "G", "8", "9", " ", "-", "+", "_", ".", "x", "\x00", "\n", "'", "\\", "\u00e9", "\U00010000",
             "\u0663", "\uff11", "=", "/", "\u2028", "\ufffd", "\x7f", "\u0130"]


def rand_digits(rng, r, n, first_nonzero=False):
    digs = {8: "01234567", 10: "0123456789", 16: "0123456789abcdefABCDEF"}[r]
    s = [rng.choice(digs) for _ in range(n)]
    if first_nonzero and n:
        s[0] = rng.choice(digs[1:])
    return "".join(s)


def tie_string(rng, r):
    """A digit string whose value sits on / next to a rounding tie far beyond the 128-bit window."""
    m = rng.getrandbits(53) | (1 << 52) | 0
    half = rng.choice([0, 1])
    gap = rng.randrange(0, 600)
    tail = rng.choice([0, 0, 1, rng.getrandbits(8)])
    v = ((m << 1 | half) << gap) | (tail if gap > 8 else 0)
    v <<= rng.randrange(0, 4)
    s = ("%o" if r == 8 else "%x") % v
    return s[:400] if len(s) > 400 else s


def gen_radix_cases(rng, tier):
    cases = []

    def add(r, s):
        cases.append({"fam": "radix", "r": r, "s": s})

    for r in (8, 16):
        w = 42 if r == 8 else 32
        fixed = ["", "0", "00", "000000000000000000000000000000000000000000000000", "1", "7", "10", "f", "F", "ff", "0x10",
                 "0" * 50 + "1", "1" + "0" * 399, "1" * 31 + "\u00e9", "1" * 32 + "\u00e9", "1" * 33 + "\u00e9",
                 "1" * 41 + "\u00e9", "1" * 42 + "\u00e9", "1" * 43 + "\u00e9", "7" * 400, "f" * 255, "f" * 256, "f" * 257,
                 "800000000000040000000000000000001", "8000000000000400000000000000000000",
                 "80000000000004" + "0" * 300 + "1", "80000000000004" + "0" * 200, "80000000000003ff" + "f" * 100,
                 "fffffffffffff8" + "0" * 242, "fffffffffffffb" + "f" * 242, "fffffffffffffc" + "0" * 242,
                 "fffffffffffffbff" + "f" * 239 + "e", "1" + "0" * 256, "7" * 341, "7" * 342, "1" + "7" * 341,
                 "17777777777777777770" + "0" * 322, "17777777777777777774" + "0" * 322,
                 "17777777777777777773" + "7" * 322, "-1", "+1", " 1", "1 ", "1_0", "\u0661"]
        for s in fixed:
            add(r, s)
        # lengths 1..400, random digits
        lens = list(range(1, 401)) if tier != "quick" else (list(range(1, 70)) + [rng.randrange(70, 401) for _ in range(80)] + [400])
        for n in lens:
            add(r, rand_digits(rng, r, n, first_nonzero=rng.random() < 0.8))
            if rng.random() < 0.3:
                add(r, "0" * rng.randrange(1, 40) + rand_digits(rng, r, n))
        # rounding ties / near ties beyond the window
        for _ in range(1500 if tier == "quick" else 8000):
            add(r, tie_string(rng, r))
        # sticky patterns: window digits, zeros, one late non-zero digit
        for _ in range(800 if tier == "quick" else 4000):
            head = rand_digits(rng, r, w, first_nonzero=True)
            k = rng.randrange(1, 400 - w)
            tail = ["0"] * k
            if rng.random() < 0.7:
                tail[rng.randrange(k)] = rng.choice("1234567" if r == 8 else "123456789abcdef")
            add(r, head + "".join(tail))
        # a non-digit at every position
        plens = [1, 2, 3, 7, w - 1, w, w + 1, w + 2, 64, 100, 257, 400] if tier == "quick" else list(range(1, 401))
        for n in plens:
            base = rand_digits(rng, r, n, first_nonzero=True)
            odd_pool = ODD_CHARS + (["8", "9", "a", "A"] if r == 8 else [])
            step_chars = 1 if tier == "quick" or n <= 64 else 1
            for pos in range(0, n + 1, step_chars):
                bad = rng.choice(odd_pool)
                add(r, base[:pos] + bad + base[pos:])       # inserted
                if pos < n and (tier != "quick" or rng.random() < 0.3):
                    add(r, base[:pos] + bad + base[pos + 1:])   # replaced
    return cases


def gen_parseint_cases(rng, tier):
    cases = []

    def add(s):
        cases.append({"fam": "parseint", "s": s})

    for s in ["", "-", "--1", "-0", "0", "00", "007", "-007", "+1", "1e3", "1.0", " 1", "1 ", "\u0661\u0662", "\uff11",
              "9007199254740993", "9007199254740992", "-9007199254740993", "18014398509481985", "1" + "0" * 308,
              "179769313486231570814527423731704356798070567525844996598917476803157260780028538760589558632766878171540458953514382464234321326889464182768467546703537516986049910576551282076245490090389328944075868508455133942304583236903222948165808559332123348274797826204144723168738177180919299881250404026184124858368",
              "179769313486231580793728971405303415079934132710037826936173778980444968292764750946649017977587207096330286416692887910946555547851940402630657488671505820681908902000708383676273854845817711531764475730270069855571366959622842914819860834936475292719074168444365510704342711559699508093042880177904174497791",
              "179769313486231580793728971405303415079934132710037826936173778980444968292764750946649017977587207096330286416692887910946555547851940402630657488671505820681908902000708383676273854845817711531764475730270069855571366959622842914819860834936475292719074168444365510704342711559699508093042880177904174497792",
              "-" + "9" * 400, "9" * 309, "0" * 399 + "1"]:
        add(s)
    lens = list(range(1, 401)) if tier != "quick" else (list(range(1, 40)) + [rng.randrange(40, 401) for _ in range(60)] + [308, 309, 310, 400])
    for n in lens:
        sign = rng.choice(["", "", "-"])
        add(sign + rand_digits(rng, 10, n, first_nonzero=rng.random() < 0.8))
    # decimal ties: (2^53 + odd) * 2^k + 2^(k-1)
    for _ in range(1000 if tier == "quick" else 6000):
        m = rng.getrandbits(53) | (1 << 52)
        k = rng.randrange(1, 900)
        v = ((m << 1) | 1) << k
        v += rng.choice([0, 0, 1, -1, rng.randrange(-5, 6)])
        add(rng.choice(["", "-"]) + str(v))
    plens = [1, 2, 17, 40, 309, 400] if tier == "quick" else list(range(1, 401, 7))
    for n in plens:
        base = rand_digits(rng, 10, n, first_nonzero=True)
        for pos in range(n + 1):
            bad = rng.choice(ODD_CHARS + ["a", "f", "e", "E"])
            sign = rng.choice(["", "-"])
            add(sign + base[:pos] + bad + base[pos:])
    return cases


def rand_bytes(rng, n):
    return bytes(rng.getrandbits(8) for _ in range(n))


def gen_b64_cases(rng, tier):
    cases = []
    nmax = 40 if tier == "quick" else 200
    reps = 6 if tier == "quick" else 40
    blobs = [b"", b"\x00", b"\xff", b"\xff\xff", b"\xff\xff\xff", b"\x00\x00\x00\x00", bytes(range(256))]
    for n in range(nmax + 1):
        for _ in range(reps):
            blobs.append(rand_bytes(rng, n))
    for b in blobs:
        cases.append({"fam": "b64enc", "b": b.hex()})
        enc = base64.b64encode(b).decode()
        cases.append({"fam": "b64dec", "s": enc})
        cases.append({"fam": "b64decs", "s": enc})
        cases.append({"fam": "b64encs", "s": b.decode("latin-1")})
    # strings with code points > 255 somewhere
    for _ in range(60 if tier == "quick" else 1000):
        n = rng.randrange(1, 12)
        s = [chr(rng.randrange(0, 256)) for _ in range(n)]
        s[rng.randrange(n)] = rng.choice(["\u0100", "\u20ac", "\U0001f600", "\uffff"])
        cases.append({"fam": "b64encs", "s": "".join(s)})
    # malformed / non-canonical encodings
    pool = list(B64ALPHA) + ["=", "=", "=", "-", "_", " ", "\n", "\u00e9", "\U00010000", "\x00", ".", "\\", "'"]
    # characters outside the alphabet that collapse onto an alphabet character (or onto '=') when a code point is
    # truncated to its low byte / low 7 bits / taken modulo a table size
    for base in "AZaz09+/=Q":
        pool += [chr(ord(base) + 0x100), chr(ord(base) + 0x200), chr(ord(base) + 0x10000), chr(ord(base) + 0x80)]
    for _ in range(6000 if tier == "quick" else 60000):
        b = rand_bytes(rng, rng.randrange(0, 14))
        s = list(base64.b64encode(b).decode())
        k = rng.random()
        if k < 0.35 and s:
            s[rng.randrange(len(s))] = rng.choice(pool)
        elif k < 0.5 and s:
            del s[rng.randrange(len(s))]
        elif k < 0.65:
            s.insert(rng.randrange(len(s) + 1), rng.choice(pool))
        elif k < 0.8:
            s = [rng.choice(pool) for _ in range(rng.choice([4, 8, 4, 3, 5, 12]))]
        elif k < 0.9 and len(s) >= 4:
            # non-canonical trailing bits / padding patterns in the last chunk
            pat = rng.choice(["xx==", "xxx=", "x===", "====", "=xxx", "x=xx", "xx=x", "xxxx"])
            s[-4:] = [rng.choice(B64ALPHA) if c == "x" else "=" for c in pat]
        else:
            s = s + list(rng.choice(["=", "==", "====", "A", "AA=="]))
        t = "".join(s)
        cases.append({"fam": rng.choice(["b64dec", "b64dec", "b64decs"]), "s": t})
    for t in ["", "====", "A===", "AA==", "AAA=", "AAAA", "AAAA====", "AAAA=", "AA=A", "=AAA", "QR==", "QUJ=", "Q", "QQ", "QQQ",
              "QUJD\n", "QU JD", "QUJDQQ==", "QQ==QUJD", "QUI=QUJD", "\u00e9\u00e9\u00e9\u00e9", "Q\U00010000==", "////", "++++", "-_-_"]:
        cases.append({"fam": "b64dec", "s": t})
        cases.append({"fam": "b64decs", "s": t})
    return cases


BOUNDARY_SCALARS = [0, 1, 0x7F, 0x80, 0x7FF, 0x800, 0xFFF, 0x1000, 0xCFFF, 0xD000, 0xD7FF, 0xE000, 0xFFFD, 0xFFFE, 0xFFFF,
                    0x10000, 0x3FFFF, 0x40000, 0xFFFFF, 0x100000, 0x10FFFF]


def rand_scalar(rng):
    k = rng.random()
    if k < 0.3:
        return rng.randrange(0, 0x80)
    if k < 0.5:
        return rng.randrange(0x80, 0x800)
    if k < 0.75:
        c = rng.randrange(0x800, 0x10000)
        return c if not (0xD800 <= c <= 0xDFFF) else 0xFFFD
    if k < 0.9:
        return rng.randrange(0x10000, 0x110000)
    return rng.choice(BOUNDARY_SCALARS)


def rand_string(rng, n, special=""):
    out = []
    for _ in range(n):
        if special and rng.random() < 0.35:
            out.append(rng.choice(special))
        else:
            out.append(chr(rand_scalar(rng)))
    return "".join(out)


INVALID_UTF8 = [b"\x80", b"\xbf", b"\xc0\x80", b"\xc1\xbf", b"\xc2", b"\xc2\x41", b"\xdf", b"\xe0\x80\x80", b"\xe0\x9f\xbf", b"\xe0\xa0",
                b"\xe0\xa0\x41", b"\xe1\x80", b"\xed\xa0\x80", b"\xed\xbf\xbf", b"\xed\x9f", b"\xef\xbf", b"\xf0\x80\x80\x80",
                b"\xf0\x8f\xbf\xbf", b"\xf0\x90", b"\xf0\x90\x80", b"\xf0\x90\x80\x41", b"\xf4\x90\x80\x80", b"\xf4\x8f\xbf",
                b"\xf5\x80\x80\x80", b"\xf8\x88\x80\x80\x80", b"\xfe", b"\xff", b"\xe2\x82", b"\xf1\x80\x80", b"\xf1\x80",
                b"\xe1\x80\xc2\x80", b"\xf0\x9f\x98", b"\xc2\xc2\x80", b"\xe0\xe0\xa0\x80", b"\xf0\xf0\x90\x80\x80"]


def gen_utf8_cases(rng, tier):
    cases = []
    # every scalar value (thorough) / boundaries + sample (quick), packed 64 per string
    if tier == "quick":
        scal = list(BOUNDARY_SCALARS) + [rand_scalar(rng) for _ in range(4000)]
    else:
        scal = [c for c in range(0x110000) if not (0xD800 <= c <= 0xDFFF)]
    for i in range(0, len(scal), 64):
        s = "".join(chr(c) for c in scal[i:i + 64])
        cases.append({"fam": "utf8enc", "s": s})
        cases.append({"fam": "utf8dec", "b": s.encode("utf-8").hex()})
    cases.append({"fam": "utf8enc", "s": ""})
    cases.append({"fam": "utf8dec", "b": ""})
    for b in INVALID_UTF8:
        cases.append({"fam": "utf8dec", "b": b.hex()})
    for _ in range(6000 if tier == "quick" else 80000):
        k = rng.random()
        if k < 0.3:
            b = rand_bytes(rng, rng.randrange(1, 12))
        elif k < 0.6:
            # valid text with an invalid piece spliced in / a byte flipped / truncated
            b = bytearray(rand_string(rng, rng.randrange(0, 6)).encode("utf-8"))
            pos = rng.randrange(len(b) + 1)
            b[pos:pos] = rng.choice(INVALID_UTF8)
            b = bytes(b)
        elif k < 0.8:
            b = bytearray(rand_string(rng, rng.randrange(1, 6)).encode("utf-8"))
            b[rng.randrange(len(b))] = rng.getrandbits(8)
            b = bytes(b)
        else:
            # bytes drawn from the interesting lead / continuation boundaries
            pool = [0x7F, 0x80, 0x8F, 0x90, 0x9F, 0xA0, 0xBF, 0xC0, 0xC1, 0xC2, 0xDF, 0xE0, 0xE1, 0xEC, 0xED, 0xEE, 0xEF, 0xF0,
                    0xF1, 0xF3, 0xF4, 0xF5, 0xFF, 0x41]
            b = bytes(rng.choice(pool) for _ in range(rng.randrange(1, 7)))
        cases.append({"fam": "utf8dec", "b": b.hex()})
    return cases


def gen_esc_cases(rng, tier):
    cases = []
    special = "'\"$&<>\\\n\t\r\x00\x08\x0c\x1a\x1f\x7f\x80\x9f\xa0 ;#`!*?"
    fixed = ["", "'", "''", "'\"'\"'", "a'b", "$", "$$", "$$$", "a$b$", "&", "&amp;", "&lt;", "<>&\"'", "\\", "\"", "\\\"", "\x00",
             "\x1a", "\x1f", "\x7f", "\x80", "\x9f", "\xa0", "\u2028", "\U0001f600", "it's \"q\" & <x> $y", "\\u0041", "\n", "\r\n",
             "".join(chr(c) for c in range(0, 0xA1))]
    n = 1000 if tier == "quick" else 10000
    strs = fixed + [rand_string(rng, rng.randrange(0, 14), special) for _ in range(n)]
    for s in strs:
        for kind in ("bash", "dollars", "xml", "json", "python"):
            cases.append({"fam": "esc", "kind": kind, "s": s})
    return cases


def gen_hash_cases(rng, tier):
    cases = []
    n = 40 if tier == "quick" else 1500
    strs = ["", "a", "abc", "\u00e9", "\U0001f600", "a" * 55, "a" * 56, "a" * 63, "a" * 64, "a" * 65, "a" * 111, "a" * 112, "a" * 127,
            "a" * 128, "a" * 129, "a" * 71, "a" * 72, "a" * 73, "a" * 1000, "\x00", "\x00" * 64]
    strs += [rand_string(rng, rng.randrange(0, 200)) for _ in range(n)]
    for s in strs:
        for kind in HASHES:
            cases.append({"fam": "hash", "kind": kind, "s": s})
    return cases


# --- JSON / YAML document generators -------------------------------------------

def gen_json_string(rng, o):
    parts = ['"']
    for _ in range(rng.choice([0, 1, 1, 2, 3, 5, 9])):
        k = rng.random()
        if k < 0.45:
            parts.append(rng.choice("abcXYZ019 _-:,[]{}#&*!|>'%@`~?/=+.;"))
        elif k < 0.6:
            parts.append(rng.choice(['\\"', "\\\\", "\\/", "\\b", "\\f", "\\n", "\\r", "\\t"]))
        elif k < 0.72:
            c = rng.choice([0, 0x1F, 0x20, 0x22, 0x41, 0x5C, 0x7F, 0x80, 0xE9, 0xFF, 0x7FF, 0x800, 0x2028, 0xD7FF, 0xE000, 0xFEFF,
                            0xFFFD, 0xFFFF, rng.randrange(0, 0xD800)])
            parts.append(rng.choice(["\\u%04x", "\\u%04X"]) % c)
        elif k < 0.8 and o.get("pairs"):
            c = rng.randrange(0x10000, 0x110000) - 0x10000
            parts.append("\\u%04x\\u%04x" % (0xD800 + (c >> 10), 0xDC00 + (c & 0x3FF)))
        elif k < 0.83 and o.get("lone"):
            parts.append(rng.choice(["\\ud800", "\\udfff", "\\udc00\\ud800", "\\ud800\\u0041", "\\ud800x", "\\uDBFF"]))
        elif k < 0.95:
            c = rand_scalar(rng)
            if c < 0x20 or c in (0x22, 0x5C):
                c = 0x7F
            parts.append(chr(c))
        else:
            parts.append(rng.choice(["\u00e9", "\u2028", "\u2029", "\u0085", "\ufeff", "\x7f", "\U0001f600", "\ufffe", "\u00a0"]))
    parts.append('"')
    return "".join(parts)


def gen_json_number(rng, o):
    k = rng.random()
    if k < 0.3:
        return str(rng.randrange(-1000, 1000))
    if k < 0.4:
        return rng.choice(["0", "-0", "0.0", "-0.0", "0e0", "0E-0", "-0e+5", "1e0", "1E5", "1e+5", "1e-5", "0.5", "123.456e7"])
    if k < 0.55:
        return "%s%d.%s" % (rng.choice(["", "-"]), rng.randrange(0, 10**rng.randrange(1, 20)), rand_digits(rng, 10, rng.randrange(1, 25)))
    if k < 0.7:
        return "%s%s%s%s%d" % (rng.choice(["", "-"]), rng.choice(["0", str(rng.randrange(1, 10**6))]),
                               rng.choice(["", "." + rand_digits(rng, 10, rng.randrange(1, 8))]),
                               rng.choice(["e", "E", "e+", "e-", "E+", "E-"]), rng.randrange(0, 330))
    if k < 0.8:
        return rand_digits(rng, 10, rng.randrange(15, 60), first_nonzero=True)
    if k < 0.86 and o.get("overflow"):
        return rng.choice(["1e309", "-1e999", "1" + "0" * 400, "1.7976931348623159e308", "1e400"])
    if k < 0.93:
        return rng.choice(["1.7976931348623157e308", "1.7976931348623158e308", "5e-324", "2e-324", "1e-400", "4.9e-324",
                           "2.2250738585072014e-308", "9007199254740993", "0.1", "0.30000000000000004",
                           "179769313486231580793728971405303415079934132710037826936173778980444968292764750946649017977587207096330286416692887910946555547851940402630657488671505820681908902000708383676273854845817711531764475730270069855571366959622842914819860834936475292719074168444365510704342711559699508093042880177904174497791"])
    return str(rng.uniform(-1e6, 1e6))


def gen_json(rng, depth, o):
    """o: ws (list of whitespace strings), pairs/lone/overflow/dups flags."""
    ws = lambda: rng.choice(o["ws"]) if rng.random() < 0.4 else ""
    k = rng.random()
    if depth <= 0 or k < 0.35:
        j = rng.random()
        if j < 0.25:
            v = gen_json_number(rng, o)
        elif j < 0.55:
            v = gen_json_string(rng, o)
        elif j < 0.7:
            v = rng.choice(["null", "true", "false"])
        elif j < 0.85:
            v = rng.choice(["[]", "{}", "[" + ws() + "]", "{" + ws() + "}"])
        else:
            v = gen_json_number(rng, o)
        return v
    n = rng.choice([0, 1, 1, 2, 2, 3, 5])
    if k < 0.68:
        items = [ws() + gen_json(rng, depth - 1, o) + ws() for _ in range(n)]
        return "[" + ",".join(items) + ("" if items else ws()) + "]"
    keys = []
    items = []
    for i in range(n):
        key = gen_json_string(rng, o)
        if o.get("dups") and keys and rng.random() < 0.5:
            key = rng.choice(keys)
        elif any(json_key_eq(key, q) for q in keys):
            key = '"k%d%s' % (i, key[1:])
        keys.append(key)
        items.append(ws() + key + ws() + ":" + ws() + gen_json(rng, depth - 1, o) + ws())
    return "{" + ",".join(items) + ("" if items else ws()) + "}"


def json_key_eq(a, b):
    try:
        return json.loads(a) == json.loads(b)
    except ValueError:
        return False


JSON_FRAGMENTS = ["NaN", "Infinity", "-Infinity", ",", ",]", ",}", "[", "]", "{", "}", ":", '"', "\\", "\\u", "\\x41", "\\'", "'", "01", "-", "+1",
                  ".5", "1.", "1e", "1e+", "0x10", "\x00", "\x1f", "\n", "\t", "\x0c", "\x0b", "\ufeff", "\u00a0", "\u2028", "//c\n", "/**/",
                  "nul", "True", "NULL", "tru", "undefined", "\\ud800", "\\udc00", "\\uD834\\uDD1E", "\\u12", "1 2", '""', "a", "é", " ", "--1",
                  "1.0.0", "1e1e1", "\x7f", "\u0661"]


def mutate(rng, doc, frags):
    s = list(doc)
    for _ in range(rng.choice([1, 1, 1, 2, 3])):
        k = rng.random()
        if k < 0.3 and s:
            del s[rng.randrange(len(s))]
        elif k < 0.6:
            s.insert(rng.randrange(len(s) + 1), rng.choice(frags))
        elif k < 0.8 and s:
            s[rng.randrange(len(s))] = rng.choice(frags)
        elif k < 0.9 and s:
            i = rng.randrange(len(s))
            s = s[:i]
        elif s:
            i = rng.randrange(len(s))
            j = rng.randrange(i, len(s))
            s[i:i] = s[i:j + 1]
    return "".join(s)


def ok_utf8(s):
    try:
        s.encode("utf-8")
        return True
    except UnicodeEncodeError:
        return False


YAML_SNIPPETS = [
    "a: 1\nb: [1, 2]\nc: {x: y}\n", "- a\n- b\n- - c\n  - d\n", "&a [1, 2]\n", "x: &a 1\ny: *a\n", "x: &a [1]\ny: *a\nz: [*a, *a]\n",
    "&a [*a]\n", "&a {k: *a}\n", "? [1]\n: 2\n", "? {a: 1}\n: 2\n", "!!str 1\n", "!foo bar\n", "a: !!int '1'\n", "--- 1\n--- 2\n", "---\n...\n---\na\n",
    "1\n---\n2\n", "--- &a x\n--- *a\n", "a: |\n  lit\n  eral\n", "a: >\n  fol\n  ded\n\n  x\n", "a: |+\n  k\n\n", "a: |2-\n    x\n", "'it''s'\n",
    "\"a\\tb\\x41\\u00e9\\U0001F600\\N\\_\\L\\P\\e\\0\"\n", "{a: 1, b: [2, 3], c}\n", "[a, b: c, {d: e}]\n", "%YAML 1.2\n---\na\n", "%TAG ! tag:x,2000:\n---\n!x a\n",
    "# comment\na: 1 # c\n", "<<: {a: 1}\nb: 2\n", "a:\n  b:\n    c:\n      - d\n", "- ? a\n  : b\n", "0o17\n", "0x1F\n", "0x\n", "0o\n", "0o8\n", "0xg\n", "+1\n", "-1\n",
    ".5\n", "1.\n", "1.e5\n", "+.5e-3\n", ".inf\n", ".nan\n", "-.inf\n", "~\n", "Null\n", "TRUE\n", "yes\n", "1e999\n", "-1e999\n", "0x" + "f" * 300 + "\n",
    "0x" + "1" * 31 + "\u00e9\n", "0o" + "7" * 50 + "\u00e9\n", "a: 1\na: 2\n", "*a\n", "[*a]\n", "a: *b\n", "&a a: 1\n*a : 2\n", "&a a: 1\n*a: 2\n", "? &a [1]\n: *a\n",
    "a: &x\nb: *x\n", "- &x\n- *x\n", "key: &a !!map {}\n", "\ufeffa: 1\n", "a:\t1\n", "a: 'x\n  y'\n", "a: \"x\\\n  y\"\n", "[\n1,\n2\n]\n", "{\n\"a\":\n1\n}\n",
    "- - - - - - - - - - a\n", "? ? ? a\n", "[[[[[[[[[[]]]]]]]]]]\n", "{a: {b: {c: {d: {}}}}}\n", "", "\n", "---\n", "...\n", "--- # empty\n", "a: b: c\n", "- a\n b\n",
    "a:\n- b\n-c\n", "@a\n", "`a\n", "a: [\n", "a: {\n", "'a\n", "\"a\n", "\"\\q\"\n", "\"\\u12\"\n", "\"\\ud800\"\n", "\"\\U00110000\"\n", "&\n", "*\n", "!\n", "!<\n", "& a\n",
    "a: &a &b c\n", "a: !!str !!int c\n", "--- |\n a\n--- >\n b\n", "-\n-\n", ":\n", ": a\n", "? \n", "- : a\n", "[a: ]\n", "[: a]\n", "{: }\n", "{a, b, c}\n", "{?a: b}\n",
    "a: b\n  c: d\n", "\x00", "a\x00b", "a: \x07\n", "a: \u0085 b\n", "a: \u2028b\n", "\r", "a: 1\r\nb: 2\r\n", "a: 1\rb: 2\r",
]

YAML_FRAGS = ["&a ", "*a", "*b ", "!!str ", "!t ", "- ", ": ", "? ", "\n", "\n  ", "\n---\n", "\n...\n", "[", "]", "{", "}", ",", "|", ">", "|-\n", "#", "'", '"',
              "\\", "\t", " ", "%", "@", "`", "<<: ", "0x", "0o", "~", "\x00", "\ufeff", "\u00e9", "\U00010000", "\r", "1e999", "&a", "*", "!", "!<x>", "\\x", "\\u12",
              "\u0085", "\u2028"]


def gen_yaml_doc(rng):
    k = rng.random()
    if k < 0.55:
        parts = [rng.choice(YAML_SNIPPETS) for _ in range(rng.choice([1, 1, 2, 3]))]
        if rng.random() < 0.3:
            # indent one snippet under a key / sequence entry
            body = "".join("  " + l + "\n" for l in parts[-1].split("\n") if l)
            parts[-1] = rng.choice(["k:\n", "-\n", "k: &a\n", "? k\n:\n"]) + body
        return rng.choice(["", "", "---\n", "--- &a\n"]).join(parts)
    o = {"ws": [" ", "\n", "  ", "\n  "], "pairs": True, "lone": False, "overflow": True}
    return gen_json(rng, rng.randrange(0, 5), o)


# ----------------------------------------------------------------------------
# driver lines / expectations
# ----------------------------------------------------------------------------

MODEL_FAMS = {"radix", "parseint", "b64enc", "b64encs", "b64dec", "b64decs", "utf8enc", "utf8dec", "esc"}


def case_line(c):
    f = c["fam"]
    if f == "radix":
        return "codec radix %d %s" % (c["r"], H(c["s"]))
    if f == "parseint":
        return "codec parseint " + H(c["s"])
    if f in ("b64enc", "utf8dec"):
        return "codec %s %s" % (f, c["b"] or "-")
    if f in ("b64encs", "b64dec", "b64decs", "utf8enc"):
        return "codec %s %s" % (f, H(c["s"]))
    if f == "esc":
        return "codec esc %s %s" % (c["kind"], H(c["s"]))
    if f == "hash":
        return "codec hash %s %s" % (c["kind"], H(c["s"]))
    if f == "json":
        return eval_line(JSON_SRC, c["s"])
    if f == "yaml":
        return eval_line(YAML_TYPE_SRC, c["s"])
    if f == "yamljson":
        return eval_line(YAML_SRC, c["s"])
    raise KeyError(f)


def case_key(c):
    return c["fam"] + ":" + ",".join("%s=%s" % (k, c[k]) for k in sorted(c) if k not in ("fam", "expect"))


def direct_oracle(c, ans):
    """None when the implementation's answer is what the standard function gives."""
    f = c["fam"]
    if ans.startswith("panic") or ans.startswith("crash") or ans == "bad-op":
        return "no answer: " + ans[:160]
    if f == "radix":
        exp = oracle_radix(c["r"], c["s"])
    elif f == "parseint":
        exp = oracle_parseint(c["s"])
    elif f == "b64enc":
        exp = oracle_b64enc(bytes.fromhex(c["b"]))
    elif f == "b64encs":
        exp = oracle_b64encs(c["s"])
    elif f == "b64dec":
        exp = oracle_b64dec(c["s"], False)
    elif f == "b64decs":
        exp = oracle_b64dec(c["s"], True)
    elif f == "utf8enc":
        exp = oracle_utf8enc(c["s"])
    elif f == "utf8dec":
        exp = oracle_utf8dec(bytes.fromhex(c["b"]))
    elif f == "hash":
        exp = oracle_hash(c["kind"], c["s"])
    elif f == "esc":
        return oracle_esc(c["kind"], c["s"], ans)
    elif f == "json":
        return json_check(c, ans)
    elif f == "yaml":
        p = vlib.parse_eval(ans)
        if p[0] == "ok" and p[1] in ("null", "boolean", "number", "string", "array", "object"):
            return None
        if p[0] == "err" and p[1] == "eval" and p[2] == "Other" and p[3].startswith("failed to parse YAML"):
            return None
        return "std.parseYaml answered neither a value nor a YAML error: " + ans[:160]
    else:
        raise KeyError(f)
    if ans != exp:
        return "expected %s, implementation answered %s" % (exp[:120], ans[:120])
    return None


def json_check(c, ans):
    exp = c.get("expect") or json_oracle(c["s"])
    got = read_manifest(ans)
    if got[0] == "bad":
        return "std.parseJson: " + got[1]
    if exp[0] == "skip":
        return None
    if exp[0] == "value" or exp[0] == "value-json":
        v = exp[1] if exp[0] == "value" else json.loads(exp[1], parse_int=float, parse_float=float)
        if got[0] != "value":
            return "RFC 8259 document rejected: " + got[1][:120]
        if not same_value(got[1], v):
            return "std.parseJson value differs from the document's value"
        return None
    # reject / limit
    if got[0] == "value":
        return "text that is not acceptable (%s: %s) was accepted" % (exp[0], exp[1])
    if "failed to parse JSON" not in got[1]:
        return "rejection is not a JSON parse error: " + got[1][:120]
    if exp[0] == "limit":
        want = []
        if "number overflow" in exp[1]:
            want.append("number overflow")
        if "lone surrogate" in exp[1]:
            want.append("invalid string escape")
        if not any(w in got[1] for w in want):
            return "limit case (%s) rejected for another reason: %s" % (exp[1], got[1][:120])
    return None


def nontrivial(c, ans):
    f = c["fam"]
    if f == "radix":
        w = 42 if c["r"] == 8 else 32
        return len(c["s"].lstrip("0")) > w or ans.startswith("err digit")
    if f == "parseint":
        return len(c["s"]) > 17 or ans.startswith("err digit")
    if f in ("b64enc",):
        return len(c["b"]) >= 2
    if f in ("b64dec", "b64decs", "b64encs"):
        return len(c["s"]) >= 4
    if f == "utf8enc":
        return any(ord(ch) >= 0x80 for ch in c["s"])
    if f == "utf8dec":
        return any(b >= 0x80 for b in bytes.fromhex(c["b"]))
    if f == "esc":
        return any(ch in c["s"] for ch in "'\"$&<>\\") or any(ord(ch) < 0x20 or 0x7F <= ord(ch) <= 0x9F for ch in c["s"])
    if f == "hash":
        return True
    if f in ("json", "yaml", "yamljson"):
        return len(c["s"]) >= 3
    return True


def branch(c, ans):
    f = c["fam"]
    if f == "esc":
        return "esc-" + c["kind"]
    if f == "hash":
        return "hash-" + c["kind"]
    w = ans.split(" ")
    if f in ("json", "yaml", "yamljson"):
        return f + "-" + ("ok" if w[0] == "ok" else "rejected")
    if w[0] == "ok":
        return f + "-ok"
    return f + "-" + "-".join(w[:2])


def run_family(rep, cases, with_model=True):
    lines = [case_line(c) for c in cases]
    io = vlib.impl(lines)
    model_idx = [i for i, c in enumerate(cases) if c["fam"] in MODEL_FAMS] if with_model else []
    mo = vlib.model([lines[i] for i in model_idx]) if model_idx else []
    for c, a in zip(cases, io):
        key = case_key(c)
        nt = nontrivial(c, a)
        rep.count(key, nt, sample={"case": {k: (v if len(str(v)) < 120 else str(v)[:120] + "...") for k, v in c.items() if k != "expect"},
                                   "impl": a[:120]} if nt and rep.rng.random() < 0.002 else None)
        rep.bump(branch(c, a))
        bad = direct_oracle(c, a)
        if bad:
            rc = {k: v for k, v in c.items() if k != "expect"}
            rep.violation(key, c["fam"] + ": " + bad, {"case": rc, "op": case_line(c) if len(case_line(c)) < 4000 else None, "impl": a[:1000]})
    mcases = [dict(cases[i], key=case_key(cases[i])) for i in model_idx]
    vlib.compare(rep, [{k: v for k, v in m.items() if k != "expect"} for m in mcases], [io[i] for i in model_idx], mo, label="codec")
    return io


def run_roundtrips(rep, tier):
    """Every decoder applied to its encoder's own output (implementation only, two passes)."""
    rng = rep.rng
    n = 300 if tier == "quick" else 6000
    blobs = [rand_bytes(rng, rng.randrange(0, 50)) for _ in range(n)] + [b"", b"\x00", bytes(range(256))]
    enc = vlib.impl(["codec b64enc " + (b.hex() or "-") for b in blobs])
    dec_lines = []
    for b, e in zip(blobs, enc):
        dec_lines.append("codec b64dec " + (e[3:] if e.startswith("ok ") else "-"))
    dec = vlib.impl(dec_lines)
    for b, e, d in zip(blobs, enc, dec):
        rep.count("rt-b64:" + b.hex(), len(b) >= 2)
        rep.bump("roundtrip-base64-len%%3=%d" % (len(b) % 3))
        if not e.startswith("ok ") or d != "ok " + H(b):
            rep.violation("rt-b64:" + b.hex(), "base64DecodeBytes(base64(bytes)) != bytes",
                          {"case": {"fam": "b64enc", "b": b.hex()}, "impl": e[:200] + " / " + d[:200]})
    strs = [rand_string(rng, rng.randrange(0, 30)) for _ in range(n)] + ["", "\x00", "\U0010ffff\ud7ff\ue000"[:1]]
    strs = [s for s in strs if ok_utf8(s)]
    enc = vlib.impl(["codec utf8enc " + H(s) for s in strs])
    dec = vlib.impl(["codec utf8dec " + (e[3:] if e.startswith("ok ") else "-") for e in enc])
    for s, e, d in zip(strs, enc, dec):
        rep.count("rt-utf8:" + s, any(ord(ch) >= 0x80 for ch in s))
        rep.bump("roundtrip-utf8")
        if not e.startswith("ok ") or d != "ok " + H(s):
            rep.violation("rt-utf8:" + s, "decodeUTF8(encodeUTF8(s)) != s", {"case": {"fam": "utf8enc", "s": s}, "impl": e[:200] + " / " + d[:200]})
    # latin-1 strings: base64Decode(base64(s)) == s
    lat = ["".join(chr(rng.randrange(256)) for _ in range(rng.randrange(0, 20))) for _ in range(n // 2)]
    enc = vlib.impl(["codec b64encs " + H(s) for s in lat])
    dec = vlib.impl(["codec b64decs " + (e[3:] if e.startswith("ok ") else "-") for e in enc])
    for s, e, d in zip(lat, enc, dec):
        rep.count("rt-b64s:" + s, len(s) >= 2)
        rep.bump("roundtrip-base64-string")
        if not e.startswith("ok ") or d != "ok " + H(s):
            rep.violation("rt-b64s:" + s, "base64Decode(base64(s)) != s", {"case": {"fam": "b64encs", "s": s}, "impl": e[:200] + " / " + d[:200]})


def run_hexstring_model(rep, tier):
    """hash_to_hex_string: the Lean model of the formatter on hashlib's digests must
    equal what the implementation printed for the same input."""
    rng = rep.rng
    strs = ["", "abc"] + [rand_string(rng, rng.randrange(0, 40)) for _ in range(30 if tier == "quick" else 600)]
    strs = [s for s in strs if ok_utf8(s)]
    lines_i, lines_m = [], []
    for s in strs:
        for kind, h in HASHES.items():
            lines_i.append("codec hash %s %s" % (kind, H(s)))
            lines_m.append("codec hexstr " + h(s.encode("utf-8")).digest().hex())
    io = vlib.impl(lines_i)
    mo = vlib.model(lines_m)
    for li, a, b in zip(lines_i, io, mo):
        rep.count("hexstr:" + li, True)
        rep.bump("hexstring-model")
        if a != b:
            rep.disagreement("hexstr:" + li, "hash_to_hex_string model differs from the implementation's digest text",
                             {"op": li, "impl": a[:200], "model": b[:200]})


def deep_docs(rng, tier):
    """Deeply nested documents with by-construction expectations (Python's json recurses)."""
    out = []
    depths = [100, 1000, 10000] if tier == "quick" else [100, 999, 1000, 1001, 5000, 10000, 20000]
    for n in depths:
        out.append(("[" * n + "]" * n, True, n))
        out.append(("[" * n + "1" + "]" * n, True, n))
        out.append(('{"a":' * n + "null" + "}" * n, True, n))
        out.append(('[{"a":' * (n // 2) + "[]" + "}]" * (n // 2), True, n))
        out.append(("[" * n + "]" * (n - 1), False, n))
        out.append(("[" * n + "]" * (n + 1), False, n))
        out.append(('{"a":' * n + "}" * n, False, n))
        out.append(("[" * n, False, n))
        out.append(("[" * n + "1," + "]" * n, False, n))
    return out


DEPTH_SRC = ("local v = std.parseJson(std.extVar('s')); local n = std.parseInt(std.extVar('n')); "
             "local step(x, i) = if std.isArray(x) then (if std.length(x) == 0 then x else x[0]) else if std.isObject(x) then x.a else x; "
             "std.manifestJsonMinified(std.foldl(step, std.range(1, n), v))")


def run_deep(rep, tier):
    docs = deep_docs(rep.rng, tier)
    lines = []
    for d, valid, n in docs:
        lines.append(vlib.eval_line(DEPTH_SRC, mode="str") + " extstr:%s=%s extstr:%s=%s" % (H("s"), H(d), H("n"), H(str(n + 5))))
    io = vlib.impl(lines)
    for (d, valid, n), a in zip(docs, io):
        key = "json-deep:%d:%s" % (n, hashlib.sha1(d.encode()).hexdigest()[:12])
        rep.count(key, True)
        rep.bump("json-deep-" + ("valid" if valid else "invalid"))
        p = vlib.parse_eval(a)
        bad = None
        if p[0] in ("panic", "crash"):
            bad = "no answer on nesting depth %d: %s" % (n, a[:120])
        elif valid:
            if p[0] != "ok" or p[1] not in ("[]", "1", "null"):
                bad = "valid document of nesting depth %d not accepted / wrong innermost value: %s" % (n, str(p)[:160])
        else:
            if not (p[0] == "err" and "failed to parse JSON" in p[3]):
                bad = "invalid document of nesting depth %d not rejected: %s" % (n, str(p)[:160])
        if bad:
            rep.violation(key, bad, {"deep": {"prefix": d[:40], "len": len(d), "depth": n, "valid": valid}, "impl": a[:300]})
    # YAML on the same deep documents: any answer will do, but there must be one
    ylines = [eval_line(YAML_TYPE_SRC, d) for d, _, n in docs if n <= (1000 if tier == "quick" else 10000)]
    yo = vlib.impl(ylines)
    for l, a in zip(ylines, yo):
        rep.count("yaml-deep:" + hashlib.sha1(l.encode()).hexdigest()[:12], True)
        rep.bump("yaml-deep")
        if a.startswith("panic") or a.startswith("crash"):
            rep.violation("yaml-deep:" + hashlib.sha1(l.encode()).hexdigest()[:12], "std.parseYaml gave no answer on a deeply nested document: " + a[:160],
                          {"op": l if len(l) < 100000 else None, "impl": a[:300]})


def run_json(rep, tier):
    rng = rep.rng
    cases = []
    fixed = ["", " ", "null", " null ", "nul", "true", "false", "0", "-0", "-", "01", "1.", ".5", "1e", "1e+", "+1", "1e999", "-1e999", "1e-999", "NaN",
             "Infinity", "-Infinity", "[]", "[ ]", "{}", "{ }", "[1,]", "[,1]", "[1 2]", "{\"a\":1,}", "{\"a\" 1}", "{a:1}", "{'a':1}", "{\"a\":1,\"a\":2}",
             "{\"a\":1,\"\\u0061\":2}", "{\"a\":{\"a\":1}}", "\"\\ud800\"", "\"\\udc00\"", "\"\\ud800\\udc00\"", "\"\\ud800\\u0041\"", "\"\\udc00\\ud800\"",
             "\"\\ud83d\\ude00\"", "\"\\uD83D\\uDE00\"", "\"\\u0000\"", "\"\x00\"", "\"\x1f\"", "\"\x7f\"", "\"\t\"", "\"\n\"", "\"\\x41\"", "\"\\'\"", "\"\\\"",
             "\"\\u12\"", "\"\\u123g\"", "\"abc", "\ufeff1", "1\ufeff", "\u00a01", "\x0c1", "\x0b1", "1 2", "1,2", "[1]]", "[[1]", "//x\n1", "/*x*/1", "1//x",
             "\"\\/\"", "\"/\"", "\t\n\r 1 \t\n\r", "1\x00", "\x001", "[1,\n2,\r\n3]", "{\"\":\"\"}", "{\"\":1,\"\":2}", "[\"\\u00e9\", \"\u00e9\"]", "tru", "truee",
             "True", "nullnull", "[null,true,false]", "0.0e-0", "-0.0", "1E+02", "1e0001", "00", "-00", "0.", "0e", "2e-1", "9" * 400, "0." + "0" * 400 + "1",
             "{\"a\":[1,{\"b\":[]}],\"c\":\"d\"}", "\"\U0001f600\"", "\"\ud7ff\ue000\"", "\"\u2028\u2029\"", "[\"\\b\\f\\n\\r\\t\\\"\\\\\\/\"]"]
    for s in fixed:
        if ok_utf8(s):
            cases.append({"fam": "json", "s": s})
    n = 4000 if tier == "quick" else 50000
    wsall = [" ", "\n", "\r", "\t", "  ", "\r\n", " \t "]
    for i in range(n):
        o = {"ws": wsall, "pairs": True, "lone": rng.random() < 0.1, "overflow": rng.random() < 0.15, "dups": rng.random() < 0.1}
        doc = gen_json(rng, rng.randrange(0, 6), o)
        if rng.random() < 0.3:
            doc = rng.choice(wsall) + doc + rng.choice(wsall)
        cases.append({"fam": "json", "s": doc})
        if rng.random() < 0.6:
            m = mutate(rng, doc, JSON_FRAGMENTS)
            if ok_utf8(m):
                cases.append({"fam": "json", "s": m})
    io = run_family(rep, cases, with_model=False)
    for c, a in zip(cases, io):
        e = json_oracle(c["s"])
        rep.bump("json-oracle-" + e[0] + ("" if e[0] != "limit" else "-" + e[1].replace(" ", "-")))
    return cases


def run_yaml(rep, tier):
    rng = rep.rng
    # totality
    cases = []
    for s in YAML_SNIPPETS:
        if ok_utf8(s):
            cases.append({"fam": "yaml", "s": s})
    n = 6000 if tier == "quick" else 100000
    for _ in range(n):
        d = gen_yaml_doc(rng)
        if rng.random() < 0.7:
            d = mutate(rng, d, YAML_FRAGS + JSON_FRAGMENTS[:20])
        if ok_utf8(d):
            cases.append({"fam": "yaml", "s": d})
    run_family(rep, cases, with_model=False)
    # agreement with parseJson on JSON documents: no tabs, no surrogate-pair escapes, depth < 100
    docs = []
    m = 3000 if tier == "quick" else 40000
    for i in range(m):
        o = {"ws": [" ", "\n", "  ", "\n  ", "\r\n"], "pairs": False, "lone": False, "overflow": False, "dups": False}
        depth = rng.randrange(0, 6) if rng.random() < 0.9 else rng.randrange(6, 12)
        doc = gen_json(rng, depth, o)
        docs.append(doc)
    for dpt in ([10, 50, 99] if tier == "quick" else range(1, 100)):
        docs.append("[" * dpt + "1" + "]" * dpt)
        docs.append('{"a":' * dpt + '"x"' + "}" * dpt)
        docs.append('[{"k":' * (dpt // 2) + "[]" + "}]" * (dpt // 2))
    docs = [d for d in docs if "\t" not in d and ok_utf8(d)]
    jl = [eval_line(JSON_SRC, d) for d in docs]
    yl = [eval_line(YAML_SRC, d) for d in docs]
    jo = vlib.impl(jl)
    yo = vlib.impl(yl)
    for d, a, b in zip(docs, jo, yo):
        key = "yamljson:" + d
        ja, yb = read_manifest(a), read_manifest(b)
        rep.count(key, len(d) >= 3)
        if ja[0] != "value":
            rep.bump("yamljson-not-a-json-document")
            continue
        rep.bump("yamljson-compared")
        if yb[0] != "value" or not same_value(ja[1], yb[1]):
            rep.violation(key, "std.parseYaml(doc) differs from std.parseJson(doc) on a JSON document without tabs / surrogate pairs: yaml=%s json=%s"
                          % (str(yb)[:100], str(ja)[:100]), {"case": {"fam": "yamljson", "s": d}, "json": a[:300], "yaml": b[:300]})


def run(rep):
    rep.rule = ("per family: radix/parseInt = digit strings of 1..400 digits (random, leading zeros, rounding ties and sticky digits beyond the 128-bit "
                "window, overflow boundary) and a non-digit (ASCII, 'é', U+10000, non-ASCII digits) inserted/substituted at every position; "
                "non-trivial = more significant digits than the window (32 hex / 42 octal / 17 decimal) or an invalid character. "
                "base64 = byte strings of every length 0..40 (all residues mod 3), Latin-1 / non-Latin-1 strings, mutated and non-canonical "
                "encodings; non-trivial = >= 2 bytes / >= 4 characters. utf8 = every boundary scalar + samples (thorough: every scalar value), "
                "invalid sequences (truncated, overlong, surrogate, > U+10FFFF, stray continuation) spliced into text; non-trivial = a byte >= 0x80. "
                "escapers = strings over quotes/dollars/XML specials/controls/DEL..U+009F; non-trivial = contains a character the escaper rewrites. "
                "parseJson = generated RFC 8259 documents (all number/escape/whitespace forms), duplicate keys, mutations with non-JSON tokens, nesting to 10^4; "
                "parseYaml = snippets with anchors/aliases/tags/multi-documents/block scalars, mutated; agreement on generated JSON documents "
                "(no tab, no surrogate-pair escape, depth < 100). distinct by case text")
    rep.assumptions = [
        "digests (md5/sha1/sha2/sha3 crates), str::parse::<f64>, u128 as f64, String::from_utf8_lossy, char::to_digit are host/library functions: "
        "modelled by their documented contracts and cross-checked here against Python (hashlib, int->float, bytes.decode(.., 'replace'))",
        "std.parseYaml's scanner (saphyr-parser) is not modelled: totality and the YAML = JSON agreement rest on the differential run only",
        "std.parseJson rejects \\uXXXX escapes that are lone surrogates (\"invalid string escape\") and numbers beyond the double range "
        "(\"number overflow\"): both are limits RFC 8259 section 9 allows (character contents of strings, range of numbers); the check requires "
        "exactly these rejections",
        "std.base64 on arrays is exercised with integral bytes 0..255 only (the property quantifies over byte arrays)",
        "Python's json module is the RFC 8259 reference (parse_constant and duplicate-key hooks make it strict); documents nested deeper than "
        "Python's recursion limit are judged by construction instead",
    ]
    vlib.prelude(rep)
    tier = rep.tier
    cases = []
    cases += gen_radix_cases(rep.rng, tier)
    cases += gen_parseint_cases(rep.rng, tier)
    cases += gen_b64_cases(rep.rng, tier)
    cases += gen_utf8_cases(rep.rng, tier)
    cases += gen_esc_cases(rep.rng, tier)
    cases += gen_hash_cases(rep.rng, tier)
    cases = [c for c in cases if "s" not in c or ok_utf8(c["s"])]
    run_family(rep, cases)
    run_roundtrips(rep, tier)
    run_hexstring_model(rep, tier)
    run_json(rep, tier)
    run_deep(rep, tier)
    run_yaml(rep, tier)


def replay(r):
    rp = r["replay"]
    vlib.build_harness()
    c = rp.get("case")
    if c is None:
        line = rp.get("op")
        if not line:
            print("record has no replayable case:", json.dumps(rp)[:400])
            return 1
        a = vlib.impl([line])[0]
        print("impl :", a[:2000])
        return 1 if (a.startswith("panic") or a.startswith("crash")) else 0
    c = {k: v for k, v in c.items() if k != "key"}
    if c["fam"] == "yamljson":
        a = vlib.impl([eval_line(JSON_SRC, c["s"]), eval_line(YAML_SRC, c["s"])])
        print("parseJson:", vlib.parse_eval(a[0]))
        print("parseYaml:", vlib.parse_eval(a[1]))
        ja, yb = read_manifest(a[0]), read_manifest(a[1])
        bad = ja[0] == "value" and (yb[0] != "value" or not same_value(ja[1], yb[1]))
        return 1 if bad else 0
    line = case_line(c)
    a = vlib.impl([line])[0]
    print("op   :", line[:500])
    print("impl :", a[:2000])
    rc = 0
    if c["fam"] in MODEL_FAMS:
        b = vlib.model([line])[0]
        print("model:", b[:2000])
        if a != b:
            rc = 1
    bad = direct_oracle(c, a)
    print("oracle:", bad)
    return 1 if bad else rc
