"""C13 — imports resolve deterministically, load once, deliver exact content.

The real binary is run on generated directory trees (under a scratch directory in
/tmp, removed at the end).  Every Jsonnet file of a tree is a "node"

    std.trace("loaded:<id>", {id: "<id>", this: std.thisFile, r: [
    import "p1",
    importstr "p2",
    ...
    ]})

so that the printed value shows which file each import picked, `std.thisFile`
shows the spelling it was loaded by and the TRACE lines on stderr show how often
each file was evaluated.  Three computations are compared on every run:
  * the binary,
  * an independent re-implementation of the property in Python on the real file
    system (os.path.exists / realpath / open)            -> rep.violation,
  * the Lean model `Rsj.Import.runRoot` on the tree description -> rep.disagreement.
`std::path` (`Path::parent`, `Path::join`) is additionally tied in-process
(`imp parent`, `imp join` on harness and model).
"""
import itertools
import json
import os
import re
import shutil
import subprocess
import tempfile
from concurrent.futures import ThreadPoolExecutor

import vlib

T_MARK = "@T@"
DIRS = ["w", "w/sub", "j1", "j2", "j3", "j1/sub", "j2/sub"]
CODE_NAMES = ["x.libsonnet", "y.libsonnet", "é.libsonnet"]
BIN_NAME = "d.bin"
BIN_SAMPLES = [b"", b"plain", b"ab\xff\xc3\xa9\xe2\x82", b"\xf0\x9f\x98\x80\xed\xa0\x80z", b"\xc0\x80\x00\x7f",
               b"\xe2\x82\xac\xf4\x90\x80\x80", b"\xef\xbb\xbfbom\r\n", bytes(range(120, 140))]
# (the BOM-leading sample doubles as a regression case: `import` of such a file used to panic while the
#  lexer error was rendered; fixed in /repo by the lead, commit dc96422)


# ---------------------------------------------------------------- std::path in Python (independent copy)

def rparent(p):
    """Path::parent (None when there is none)."""
    root = p.startswith("/")
    segs = p[1:].split("/") if root else p.split("/")
    if segs == [""]:
        segs = []

    def trim(l):
        l = list(l)
        while l and (l[-1] == "" or (l[-1] == "." and (root or len(l) != 1))):
            l.pop()
        return l
    t = trim(segs)
    if not t:
        return None
    return ("/" if root else "") + "/".join(trim(t[:-1]))


def rjoin(base, p):
    if p.startswith("/"):
        return p
    if base == "":
        return p
    if base.endswith("/"):
        return base + p
    return base + "/" + p


# ---------------------------------------------------------------- tree specification

def node_text(ident, ops, T):
    lines = ['std.trace("loaded:%s", {id: "%s", this: std.thisFile, r: [' % (ident, ident)]
    kw = {"c": "import", "s": "importstr", "b": "importbin"}
    for k, p in ops:
        lines.append('%s %s,' % (kw[k], vlib.jsonnet_str(p.replace(T_MARK, T))))
    lines.append("]})")
    return ("\n".join(lines) + "\n").encode("utf-8")


def gen_spec(rng, can_chmod):
    """A tree description; all locations relative to the scratch root, absolute
    strings use the @T@ placeholder."""
    spec = {"dirs": list(DIRS), "files": {}, "links": {}, "unreadable": [], "cwd": "w"}
    names = rng.sample(CODE_NAMES, rng.choice([1, 2, 2, 3]))
    lib_dirs = ["w", "w/sub", "j1", "j2", "j3", "j1/sub", "j2/sub"]

    jpool = ["j1", "j2", "j3", "j1", "j2", "j3", "w/sub", "nodir"]
    js = []
    for j in rng.sample(jpool, rng.choice([1, 2, 2, 3, 3, 3])):
        if j not in js:
            js.append(j)
    jdirs = [j for j in js]
    spec["jset"] = [rng.choice([T_MARK + "/" + j, "../" + j, "../" + j + "/"]) for j in js]

    def spellings(name, from_dir):
        """An import string for `name` used by a file in `from_dir`: mostly one that resolves."""
        r = rng.random()
        locs = [l for l in spec["files"] if l.endswith("/" + name)]
        plain_ok = any((d + "/" + name) in spec["files"] for d in [from_dir] + jdirs)
        if (r < 0.45 and plain_ok) or not locs:
            return name                                  # depends on the importer's directory and the -J order
        if r < 0.97:
            loc = rng.choice(locs)
            k = rng.random()
            if k < 0.25:
                return T_MARK + "/" + loc
            rel = os.path.relpath(loc, from_dir)
            if k < 0.5:
                return rel
            if k < 0.7:
                return "./" + rel
            if k < 0.85 and from_dir in ("w", "j1", "j2"):
                return "sub/../" + rel
            if k < 0.93:
                return ".//" + rel
            return "../" + os.path.basename(from_dir) + "/" + rel if "/" not in from_dir else rel
        return rng.choice(["sub/" + name, "lnd/" + name, "../j2/" + name, "../w/" + name])

    occupied = set()
    for name in names:
        k = rng.choice([1, 2, 2, 3, 3, 4])
        for d in rng.sample(lib_dirs, k):
            loc = d + "/" + name
            occupied.add(loc)
            spec["files"][loc] = {"kind": "node", "id": loc, "ops": []}
    # binary files
    for d in rng.sample(lib_dirs, rng.choice([1, 2, 3])):
        loc = d + "/" + BIN_NAME
        occupied.add(loc)
        r0 = rng.random()
        if r0 < 0.15:
            # long content with a multi-byte character (or a truncated one) astride a typical read-buffer boundary:
            # importstr must still be the lossy decoding of the WHOLE file, importbin its exact bytes
            bound = rng.choice([4096, 8192, 8192, 16384])
            ch = rng.choice(["é", "€", "😀", "é€😀"]).encode("utf-8")
            off = rng.randrange(1, len(ch)) if rng.random() < 0.8 else 0
            tail = rng.choice([b"", b"z", ch, b"\xe2\x82"])
            data = b"a" * (bound - off) + ch + b"b" * rng.choice([0, 1, 5000]) + tail
        elif r0 < 0.75:
            data = rng.choice(BIN_SAMPLES)
        else:
            data = bytes(rng.randrange(256) for _ in range(rng.randrange(1, 12)))
        spec["files"][loc] = {"kind": "bin", "hex": data.hex()}
    # special entries
    if rng.random() < 0.5:
        spec["links"]["w/lnd"] = rng.choice(["../j3", "../j2", T_MARK + "/j1", "sub", "../j1/sub"])
    if rng.random() < 0.4:
        tgt_dir = rng.choice(lib_dirs)
        nm = rng.choice(names)
        spec["links"]["w/lnx.libsonnet"] = rng.choice(["../" + tgt_dir + "/" + nm, T_MARK + "/" + tgt_dir + "/" + nm])
    if rng.random() < 0.25:
        loc = rng.choice(["w", "j1", "j2", "j3"]) + "/" + rng.choice(names)
        if loc not in occupied:
            occupied.add(loc)
            spec["links"][loc] = rng.choice(["nonexistent", "../nowhere/" + names[0]])   # broken link: does not exist
    if rng.random() < 0.2:
        spec["links"]["w/loop.libsonnet"] = "loop.libsonnet"
    if rng.random() < 0.25:
        loc = rng.choice(["w", "j1", "j2", "j3"]) + "/" + rng.choice(names)
        if loc not in occupied:
            occupied.add(loc)
            spec["dirs"].append(loc)                                      # directory in place of a file
    if can_chmod and rng.random() < 0.3:
        cand = [l for l, f in spec["files"].items()]
        spec["unreadable"].append(rng.choice(cand))
    # nested imports of the library files
    node_locs = [l for l, f in spec["files"].items() if f["kind"] == "node"]
    for loc in node_locs:
        d = os.path.dirname(loc)
        nops = rng.choice([0, 0, 0, 1, 1, 2])
        for _ in range(nops):
            r = rng.random()
            rank = names.index(os.path.basename(loc))
            later = names[rank + 1:] if rng.random() < 0.9 else names      # mostly acyclic; sometimes a cycle
            if r < 0.7 and later:
                spec["files"][loc]["ops"].append(["c", spellings(rng.choice(later), d)])
            elif r < 0.85:
                spec["files"][loc]["ops"].append(["s", spellings(BIN_NAME, d)])
            else:
                spec["files"][loc]["ops"].append(["b", spellings(BIN_NAME, d)])
    # root
    rops = []
    for _ in range(rng.choice([2, 3, 4, 5])):
        r = rng.random()
        if r < 0.6:
            rops.append(["c", spellings(rng.choice(names), "w")])
        elif r < 0.72:
            rops.append(["s", spellings(rng.choice([BIN_NAME, BIN_NAME, rng.choice(names)]), "w")])
        elif r < 0.84:
            rops.append(["b", spellings(BIN_NAME, "w")])
        elif r < 0.95:
            rops.append(["c", "lnx.libsonnet" if "w/lnx.libsonnet" in spec["links"] else rng.choice(names)])
        elif r < 0.96:
            rops.append([rng.choice("csb"), "missing.libsonnet"])
        elif r < 0.97:
            rops.append([rng.choice("csb"), rng.choice(["sub", "../j1", T_MARK + "/j2", "lnd"])])   # a directory
        elif r < 0.98:
            rops.append(["c", BIN_NAME])                                                    # not Jsonnet
        elif r < 0.99:
            rops.append([rng.choice("csb"), "loop.libsonnet"])
        else:
            rops.append([rng.choice("csb"), ""])
    spec["files"]["w/root.jsonnet"] = {"kind": "node", "id": "root", "ops": rops}
    spec["root"] = rng.choice(["root.jsonnet", "root.jsonnet", "./root.jsonnet", T_MARK + "/w/root.jsonnet",
                               "sub/../root.jsonnet", "../w/root.jsonnet"])
    return spec


CORPUS = [
    # same name in the importer's directory and in two -J directories; three spellings of one file
    {"dirs": DIRS, "links": {}, "unreadable": [], "cwd": "w", "root": "root.jsonnet",
     "jset": ["../j1", "../j2"],
     "files": {"w/x.libsonnet": {"kind": "node", "id": "w/x", "ops": []},
               "j1/x.libsonnet": {"kind": "node", "id": "j1/x", "ops": []},
               "j2/x.libsonnet": {"kind": "node", "id": "j2/x", "ops": []},
               "j1/y.libsonnet": {"kind": "node", "id": "j1/y", "ops": [["c", "x.libsonnet"]]},
               "j2/y.libsonnet": {"kind": "node", "id": "j2/y", "ops": [["c", "x.libsonnet"]]},
               "w/root.jsonnet": {"kind": "node", "id": "root", "ops": [
                   ["c", "x.libsonnet"], ["c", "./x.libsonnet"], ["c", "sub/../x.libsonnet"],
                   ["c", "y.libsonnet"], ["c", T_MARK + "/j1/x.libsonnet"], ["c", "../j1/x.libsonnet"]]}}},
    # import cycle through two files; must be an error, not a hang
    {"dirs": DIRS, "links": {}, "unreadable": [], "cwd": "w", "root": "./root.jsonnet", "jset": [T_MARK + "/j1"],
     "files": {"j1/x.libsonnet": {"kind": "node", "id": "j1/x", "ops": [["c", "y.libsonnet"]]},
               "j1/y.libsonnet": {"kind": "node", "id": "j1/y", "ops": [["c", "./x.libsonnet"]]},
               "w/root.jsonnet": {"kind": "node", "id": "root", "ops": [["c", "x.libsonnet"]]}}},
    # a file first reached through a symlink: thisFile and its relative imports follow the link's spelling
    {"dirs": DIRS, "links": {"w/lnx.libsonnet": "../j2/x.libsonnet", "w/lnd": "../j3"}, "unreadable": [], "cwd": "w",
     "root": T_MARK + "/w/root.jsonnet", "jset": ["../j3", "../j2"],
     "files": {"j2/x.libsonnet": {"kind": "node", "id": "j2/x", "ops": [["c", "y.libsonnet"], ["s", "d.bin"]]},
               "j2/y.libsonnet": {"kind": "node", "id": "j2/y", "ops": []},
               "w/y.libsonnet": {"kind": "node", "id": "w/y", "ops": []},
               "j3/y.libsonnet": {"kind": "node", "id": "j3/y", "ops": []},
               "j3/d.bin": {"kind": "bin", "hex": b"ab\xff\xc3\xa9\xe2\x82".hex()},
               "w/d.bin": {"kind": "bin", "hex": b"\xf0\x9f\x98\x80\xed\xa0\x80z".hex()},
               "w/root.jsonnet": {"kind": "node", "id": "root", "ops": [
                   ["c", "lnx.libsonnet"], ["c", "x.libsonnet"], ["c", "lnd/y.libsonnet"], ["b", "lnd/d.bin"],
                   ["s", "d.bin"], ["b", "d.bin"]]}}},
    # missing file, directory instead of file, broken link shadowing nothing
    {"dirs": DIRS + ["j1/x.libsonnet"], "links": {"w/y.libsonnet": "nonexistent"}, "unreadable": [], "cwd": "w",
     "root": "root.jsonnet", "jset": ["../j2", "../j1"],
     "files": {"j2/x.libsonnet": {"kind": "node", "id": "j2/x", "ops": []},
               "j2/y.libsonnet": {"kind": "node", "id": "j2/y", "ops": []},
               "w/root.jsonnet": {"kind": "node", "id": "root", "ops": [["c", "y.libsonnet"], ["c", "x.libsonnet"]]}}},
    {"dirs": DIRS, "links": {}, "unreadable": [], "cwd": "w", "root": "root.jsonnet", "jset": ["../j2"],
     "files": {"w/root.jsonnet": {"kind": "node", "id": "root", "ops": [["s", "missing.libsonnet"]]}}},
]


def perms_of(spec, rng, tier):
    js = spec["jset"]
    allp = list(itertools.permutations(js))
    if tier == "quick" and len(allp) > 3:
        out = [list(p) for p in rng.sample(allp, 3)]
    else:
        out = [list(p) for p in allp]
    if len(js) >= 2:
        # a directory named more than once: its right-most mention decides its priority
        for p in (allp if tier != "quick" else rng.sample(allp, min(2, len(allp)))):
            p = list(p)
            out.append(p + [p[0]])
            q = list(p)
            q.insert(rng.randrange(len(q) + 1), rng.choice(p))
            if q not in out:
                out.append(q)
    return out


# ---------------------------------------------------------------- building the tree

def build_tree(T, spec):
    for d in spec["dirs"]:
        os.makedirs(os.path.join(T, d), exist_ok=True)
    contents = {}
    for loc, f in spec["files"].items():
        data = node_text(f["id"], f["ops"], T) if f["kind"] == "node" else bytes.fromhex(f["hex"])
        contents[loc] = data
        with open(os.path.join(T, loc), "wb") as fh:
            fh.write(data)
    for loc, tgt in spec["links"].items():
        os.symlink(tgt.replace(T_MARK, T), os.path.join(T, loc))
    for loc in spec["unreadable"]:
        os.chmod(os.path.join(T, loc), 0)
    return contents


def remove_tree(T):
    for root, dirs, files in os.walk(T):
        for f in files:
            try:
                os.chmod(os.path.join(root, f), 0o600)
            except OSError:
                pass
    shutil.rmtree(T, ignore_errors=True)


def model_tokens(T, spec, contents, jl):
    toks = ["cwd=" + vlib.hx(T + "/" + spec["cwd"]), "root=" + vlib.hx(spec["root"].replace(T_MARK, T))]
    for j in jl:
        toks.append("J=" + vlib.hx(j.replace(T_MARK, T)))
    # ancestors of T are directories
    parts = T.strip("/").split("/")
    for i in range(1, len(parts) + 1):
        toks.append("D:" + vlib.hx("/" + "/".join(parts[:i])))
    for d in spec["dirs"]:
        toks.append("D:" + vlib.hx(T + "/" + d))
    for loc, f in spec["files"].items():
        tag = "U" if loc in spec["unreadable"] else "F"
        t = "%s:%s:%s" % (tag, vlib.hx(T + "/" + loc), vlib.hx(contents[loc]))
        if f["kind"] == "node" and tag == "F":
            t += ":" + vlib.hx(f["id"])
            if f["ops"]:
                t += ":" + ",".join("%s/%s" % (k, vlib.hx(p.replace(T_MARK, T))) for k, p in f["ops"])
        toks.append(t)
    for loc, tgt in spec["links"].items():
        toks.append("L:%s:%s" % (vlib.hx(T + "/" + loc), vlib.hx(tgt.replace(T_MARK, T))))
    return toks


# ---------------------------------------------------------------- the oracle (property re-implemented on the real FS)

class ImportFail(Exception):
    pass


class Oracle:
    def __init__(self, T, spec, jl):
        self.T = T
        self.cwd = os.path.join(T, spec["cwd"])
        self.search = [j.replace(T_MARK, T) for j in reversed(jl)]     # right-most -J first
        self.progs = {}
        for loc, f in spec["files"].items():
            if f["kind"] == "node":
                self.progs[os.path.realpath(os.path.join(T, loc))] = f
        self.cache = {}          # realpath -> [spelled, value or None while in progress]
        self.traces = []
        self.multi_candidates = False
        self.spellings = {}      # realpath -> set of spellings

    def ap(self, p):
        return os.path.join(self.cwd, p)

    def exists(self, p):
        return p != "" and os.path.exists(self.ap(p))

    def find(self, importer, path):
        if path.startswith("/"):
            cands = [path]
        else:
            bases = []
            if importer is not None:
                d = rparent(importer)
                if d is not None:
                    bases.append(d)
            bases += self.search
            cands = [rjoin(b, path) for b in bases]
        ex = [c for c in cands if self.exists(c)]
        if len(ex) >= 2 and len({os.path.realpath(self.ap(c)) for c in ex}) >= 2:
            self.multi_candidates = True
        return ex[0] if ex else None

    def read(self, full):
        try:
            with open(self.ap(full), "rb") as fh:
                return fh.read()
        except IsADirectoryError:
            raise ImportFail("read-EISDIR")
        except PermissionError:
            raise ImportFail("read-EACCES")

    def load(self, spelled):
        """-> value of the file (deep), evaluating it at most once."""
        real = os.path.realpath(self.ap(spelled))
        self.spellings.setdefault(real, set()).add(spelled)
        if real in self.cache:
            ent = self.cache[real]
            if ent[1] is None:
                raise ImportFail("cycle")
            return ent[1]
        data = self.read(spelled)
        f = self.progs.get(real)
        if f is None:
            raise ImportFail("load")
        ent = [spelled, None]
        self.cache[real] = ent
        self.traces.append(f["id"])
        r = []
        for i, (k, p) in enumerate(f["ops"]):
            p = p.replace(T_MARK, self.T)
            try:
                full = self.find(spelled, p)
                if full is None:
                    raise ImportFail("notfound")
                if k == "c":
                    r.append(self.load(full))
                elif k == "s":
                    r.append(("S", self.read(full).decode("utf-8", "replace")))
                else:
                    r.append(("B", list(self.read(full))))
            except ImportFail as e:
                if len(e.args) == 1 and e.args[0] != "cycle":
                    raise ImportFail(e.args[0], spelled, i)
                raise
        v = ("N", f["id"], spelled, r)
        ent[1] = v
        return v

    def run(self, root):
        try:
            if not self.exists(root):
                raise ImportFail("notexist", "", 0)
            try:
                v = self.load(root)
            except ImportFail as e:
                if len(e.args) == 1 and e.args[0] != "cycle":
                    raise ImportFail(e.args[0], "", 0)
                raise
            return "ok %s %s" % (show_val(v), show_traces(self.traces))
        except ImportFail as e:
            if e.args[0] == "cycle":
                return "err cycle " + show_traces(self.traces)
            return "err imp %s %s %d %s" % (e.args[0], vlib.hx(e.args[1]), e.args[2], show_traces(self.traces))

    def nontrivial(self):
        return self.multi_candidates or any(len(s) >= 2 for s in self.spellings.values())


def show_traces(tr):
    return "[" + ",".join(vlib.hx(t) for t in tr) + "]"


def show_val(v):
    if v[0] == "N":
        return "N(%s,%s,[%s])" % (vlib.hx(v[1]), vlib.hx(v[2]), ";".join(show_val(x) for x in v[3]))
    if v[0] == "S":
        return "S(%s)" % vlib.hx(v[1])
    return "B(%s)" % vlib.hx(bytes(v[1]))


def json_to_val(j):
    if isinstance(j, dict):
        if set(j.keys()) != {"id", "r", "this"}:
            raise ValueError("unexpected object " + repr(j)[:100])
        return ("N", j["id"], j["this"], [json_to_val(x) for x in j["r"]])
    if isinstance(j, str):
        return ("S", j)
    if isinstance(j, list):
        return ("B", j)
    raise ValueError("unexpected json " + repr(j)[:100])


# ---------------------------------------------------------------- the binary

ENV = dict(os.environ, NO_COLOR="1")


def run_cli(T, spec, jl, timeout=60):
    cmd = [vlib.CLI_BIN]
    for j in jl:
        cmd += ["-J", j.replace(T_MARK, T)]
    cmd.append(spec["root"].replace(T_MARK, T))
    try:
        p = subprocess.run(cmd, cwd=os.path.join(T, spec["cwd"]), env=ENV, stdin=subprocess.DEVNULL,
                           stdout=subprocess.PIPE, stderr=subprocess.PIPE, timeout=timeout)
    except subprocess.TimeoutExpired:
        return None, b"", b"", cmd
    return p.returncode, p.stdout, p.stderr, cmd


SITE_RE = re.compile(r"error: failed to import .*\n --> (.*):(\d+):(\d+)\n")


def impl_answer(rc, out, err):
    """Canonical answer string of a run, or ('bad', why)."""
    errs = err.decode("utf-8", "replace")
    traces = re.findall(r"^TRACE: loaded:(.*)$", errs, re.M)
    tr = show_traces(traces)
    if rc == 0:
        try:
            v = json_to_val(json.loads(out.decode("utf-8")))
        except Exception as e:     # noqa
            return ("bad", "exit 0 but stdout is not the expected JSON: %r" % (e,))
        return "ok %s %s" % (show_val(v), tr)
    if rc != 1:
        return ("bad", "exit status %r (stderr tail: %s)" % (rc, errs[-300:]))
    if out:
        return ("bad", "exit 1 with non-empty stdout")
    if "error: stack overflow" in errs or "error: infinite recursion" in errs:
        return "err cycle " + tr
    if "not found in search path" in errs:
        kind = "notfound"
    elif "failed to read" in errs:
        kind = "read-EISDIR" if "Is a directory" in errs else "read-EACCES" if "Permission denied" in errs else "read-other"
    elif "does not exist" in errs:
        kind = "notexist"
    elif "failed to canonicalize" in errs:
        kind = "canon-ELOOP" if "symbolic links" in errs else "canon-other"
    elif "failed to import" in errs:
        kind = "load"
    else:
        return ("bad", "exit 1 without a recognised import error: " + errs[-300:])
    m = SITE_RE.search(errs)
    if m is None:
        # failure of the root file itself (no import site)
        return "err imp %s - 0 %s" % (kind, tr)
    return "err imp %s %s %d %s" % (kind, vlib.hx(m.group(1)), int(m.group(2)) - 2, tr)


# ---------------------------------------------------------------- std::path tie

def path_tie(rep):
    segs = ["", "a", ".", "..", "bé"]
    paths = set()
    for n in range(0, 5 if rep.tier == "quick" else 6):
        for t in itertools.product(segs, repeat=n):
            paths.add("/".join(t))
    paths = sorted(paths)
    lines = ["imp parent " + vlib.hx(p) for p in paths]
    short = [p for p in paths if len(p) <= 7]
    for _ in range(1500 if rep.tier == "quick" else 20000):
        lines.append("imp join %s %s" % (vlib.hx(rep.rng.choice(short)), vlib.hx(rep.rng.choice(short))))
    io = vlib.impl(lines)
    mo = vlib.model(lines)
    for l, a, b in zip(lines, io, mo):
        rep.count(l, False)
        rep.bump("path_ops")
        w = l.split(" ")
        # direct oracle: the Python copy of std::path
        if w[1] == "parent":
            p = vlib.unhx(w[2]).decode()
            q = rparent(p)
            exp = "none" if q is None else "some " + vlib.hx(q)
        else:
            exp = vlib.hx(rjoin(vlib.unhx(w[2]).decode(), vlib.unhx(w[3]).decode()))
        if a != b or a != exp:
            rep.disagreement(l, "std::path op: implementation, model and python copy differ",
                             {"op": l, "impl": a, "model": b, "python": exp})


# ---------------------------------------------------------------- one case

def run_case(rep, base, spec, jl, idx, record=True):
    T = os.path.join(base, "t%d" % idx)
    os.makedirs(T)
    try:
        contents = build_tree(T, spec)
        rc, out, err, cmd = run_cli(T, spec, jl)
        orc = Oracle(T, spec, jl)
        exp = orc.run(spec["root"].replace(T_MARK, T))
        line = "imp run " + " ".join(model_tokens(T, spec, contents, jl))
    finally:
        remove_tree(T)
    if rc is None:
        got = ("bad", "timeout (hang)")
    else:
        got = impl_answer(rc, out, err)
    return {"T": T, "spec": spec, "jl": jl, "got": got, "exp": exp, "line": line, "nontrivial": orc.nontrivial(),
            "stderr": err.decode("utf-8", "replace")[-1500:], "rc": rc,
            "impl_traces": re.findall(r"^TRACE: loaded:(.*)$", err.decode("utf-8", "replace"), re.M)}


def run_virtual_case(base, spec, jl, idx, rng_choice):
    """`-e` / stdin root: there is no importing file, so only the -J directories are searched.
    The chosen file is observed through its own std.thisFile."""
    T = os.path.join(base, "v%d" % idx)
    os.makedirs(T)
    name, kind = rng_choice
    try:
        contents = build_tree(T, spec)
        src = "(import %s).this" % vlib.jsonnet_str(name.replace(T_MARK, T))
        cmd = [vlib.CLI_BIN]
        for j in jl:
            cmd += ["-J", j.replace(T_MARK, T)]
        cmd += ["-e", src] if kind == "e" else ["-"]
        try:
            p = subprocess.run(cmd, cwd=os.path.join(T, spec["cwd"]), env=ENV,
                               input=b"" if kind == "e" else src.encode(), stdout=subprocess.PIPE,
                               stderr=subprocess.PIPE, timeout=60)
            rc, out, err = p.returncode, p.stdout, p.stderr.decode("utf-8", "replace")
        except subprocess.TimeoutExpired:
            rc, out, err = None, b"", ""
        orc = Oracle(T, spec, jl)
        full = orc.find(None, name.replace(T_MARK, T))
        exp = "none" if full is None else "some " + vlib.hx(full)
        line = "imp find - %s %s" % (vlib.hx(name.replace(T_MARK, T)), " ".join(model_tokens(T, spec, contents, jl)))
    finally:
        remove_tree(T)
    if rc == 0:
        try:
            got = "some " + vlib.hx(json.loads(out.decode("utf-8")))
        except Exception:
            got = "bad stdout"
    elif rc == 1 and "not found in search path" in err:
        got = "none"
    elif rc == 1:
        got = "other-error"      # found something that is not an importable node (directory, binary, cycle)
    else:
        got = "bad exit %r" % (rc,)
    return {"T": T, "got": got, "exp": exp, "line": line, "stderr": err[-600:], "multi": orc.multi_candidates,
            "replay": {"virtual": True, "spec": spec, "jl": jl, "choice": list(rng_choice)}}


def norm(s, T):
    """Make answers independent of the scratch directory name (for keys / replay)."""
    return s


def run(rep):
    rep.rule = ("generated directory trees: the same file names duplicated across the importer's directory, "
                "up to three -J directories (all orders; 3 sampled orders per tree in quick; orders with a directory named twice) and sub-directories; "
                "import strings spelled plain / ./ / sub/../ / ../dir/ / through a directory symlink / absolute; "
                "file symlinks, broken and looping links, directories in place of files, non-Jsonnet and binary "
                "content (invalid UTF-8) for importstr/importbin, nested imports and import cycles; non-trivial = "
                "some import has >= 2 existing candidates in different directories, or some file is reached by "
                ">= 2 spellings; distinct by (tree description, -J order)")
    can_chmod = os.geteuid() != 0
    rep.assumptions = [
        "the file system does not change during a run; directories are searchable",
        "String::from_utf8_lossy = Unicode maximal-subpart replacement (Rsj.Utf8.Lossy); python's bytes.decode('utf-8','replace') implements the same policy",
        "symlink expansion limit 40 (Linux MAXSYMLINKS); paths are valid UTF-8",
        "deep evaluation of the root value is depth-first, left to right (eval_value), observed via std.trace",
    ]
    if not can_chmod:
        rep.assumptions.append("check ran as root: chmod 000 does not block reads, so the 'unreadable file' fault "
                               "was NOT exercised on the binary (the model and theorem C13_unreadable_is_error cover it)")
    vlib.prelude(rep, cli=True)
    path_tie(rep)
    base = tempfile.mkdtemp(prefix="rsj-c13-", dir="/tmp")
    base = os.path.realpath(base)
    try:
        ntrees = 200 if rep.tier == "quick" else 1000
        work = []
        for sp in CORPUS:
            for jl in [list(p) for p in itertools.permutations(sp["jset"])]:
                work.append((sp, jl))
                if len(jl) >= 2:
                    work.append((sp, jl + [jl[0]]))
        for _ in range(ntrees):
            sp = gen_spec(rep.rng, can_chmod)
            for jl in perms_of(sp, rep.rng, rep.tier):
                work.append((sp, jl))
        with ThreadPoolExecutor(max_workers=4) as ex:
            results = list(ex.map(lambda a: run_case(rep, base, a[1][0], a[1][1], a[0]), enumerate(work)))
        # virtual roots (-e / stdin): no importer directory
        vres = []
        seen = set()
        for i, (sp, jl) in enumerate(work):
            k = json.dumps(sp, sort_keys=True)
            if k in seen:
                continue
            seen.add(k)
            names = sorted({os.path.basename(l) for l, f in sp["files"].items() if f["kind"] == "node" and l != "w/root.jsonnet"})
            if not names:
                continue
            nm = rep.rng.choice(names)
            choice = (rep.rng.choice([nm, nm, "./" + nm, "sub/" + nm, "../w/" + nm, T_MARK + "/j1/" + nm]),
                      rep.rng.choice(["e", "stdin"]))
            # also without any -J: then only an absolute path can resolve (it bypasses the search)
            vjl = [] if rep.rng.random() < 0.35 else jl
            if not vjl and rep.rng.random() < 0.7:
                choice = (T_MARK + "/" + rep.rng.choice(["j1", "j2", "w"]) + "/" + nm, choice[1])
            vres.append(run_virtual_case(base, sp, vjl, i, choice))
        vmo = vlib.model([r["line"] for r in vres])
        for r, m in zip(vres, vmo):
            key = json.dumps(r["replay"], sort_keys=True)
            rep.count(key, r["multi"])
            rep.bump("virtual-root-" + r["got"].split(" ")[0])
            if r["got"].startswith("bad"):
                rep.violation("c13:" + key, "virtual root: " + r["got"] + " stderr: " + r["stderr"], r["replay"])
            elif r["got"] == "other-error":
                if r["exp"] == "none":
                    rep.violation("c13:" + key, "virtual root: an import that resolves to nothing did not report "
                                  "'not found': " + r["stderr"], r["replay"])
            elif r["got"] != r["exp"]:
                rep.violation("c13:" + key, "virtual root (-e / stdin): binary picked %s, reference resolution %s"
                              % (r["got"], r["exp"]), r["replay"])
            elif r["got"] != m:
                rep.disagreement("c13:" + key, "virtual root: implementation and model differ",
                                 dict(r["replay"], impl=r["got"], model=m))
        rep.extra["t_runs_s"] = round(__import__("time").time() - rep.t0, 1)
        mo = vlib.model([r["line"] for r in results])
        rep.extra["t_model_s"] = round(__import__("time").time() - rep.t0, 1)
        for r, m in zip(results, mo):
            key = json.dumps([r["spec"], r["jl"]], sort_keys=True)
            replay = {"spec": r["spec"], "jl": r["jl"]}
            sample = None
            if r["nontrivial"] and len(rep.samples) < 12:
                sample = {"root_ops": r["spec"]["files"]["w/root.jsonnet"]["ops"], "J": r["jl"],
                          "impl": (r["got"] if isinstance(r["got"], str) else repr(r["got"]))[:300].replace(r["T"], "@T@")}
            rep.count(key, r["nontrivial"], sample=sample)
            rep.bump("runs")
            got, exp = r["got"], r["exp"]
            if isinstance(got, tuple):
                rep.bump("bad")
                rep.violation("c13:" + key, got[1], replay)
                continue
            w = got.split(" ")
            rep.bump("ok" if w[0] == "ok" else "err-cycle" if w[1] == "cycle" else "err-" + w[2])
            # each file evaluated at most once
            tr = r["impl_traces"]
            if len(tr) != len(set(tr)):
                rep.violation("c13:" + key, "a file was evaluated more than once: %r" % tr, replay)
                continue
            if got != exp:
                rep.violation("c13:" + key,
                              "binary and the property's reference resolution differ: got %s expected %s"
                              % (got[:400].replace(r["T"], "@T@"), exp[:400].replace(r["T"], "@T@")), replay)
                continue
            if got != m:
                rep.disagreement("c13:" + key, "import tree: implementation and model differ",
                                 {"spec": r["spec"], "jl": r["jl"], "impl": got[:1500], "model": m[:1500]})
    finally:
        remove_tree(base)


def replay(record):
    r = record["replay"]
    if "op" in r:
        vlib.build_harness()
        a = vlib.impl([r["op"]])[0]
        b = vlib.model([r["op"]])[0]
        print("impl :", a)
        print("model:", b)
        return 1 if a != b else 0
    vlib.build_cli()

    class _R:
        pass
    base = os.path.realpath(tempfile.mkdtemp(prefix="rsj-c13-", dir="/tmp"))
    if r.get("virtual"):
        try:
            res = run_virtual_case(base, r["spec"], r["jl"], 0, tuple(r["choice"]))
        finally:
            remove_tree(base)
        m = vlib.model([res["line"]])[0]
        print("impl  :", res["got"], "\noracle:", res["exp"], "\nmodel :", m, "\nstderr:", res["stderr"])
        return 1 if res["got"] != res["exp"] or res["got"] != m else 0
    try:
        res = run_case(_R(), base, r["spec"], r["jl"], 0)
    finally:
        remove_tree(base)
    m = vlib.model([res["line"]])[0]
    print("exit  :", res["rc"])
    print("stderr:", res["stderr"])
    print("impl  :", res["got"])
    print("oracle:", res["exp"])
    print("model :", m)
    return 1 if res["got"] != res["exp"] or res["got"] != m else 0
