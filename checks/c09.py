"""C09 — scoping errors are found before anything runs, and only real ones."""
import vlib
import gen_core as G

EXPR_ARITY = {
    'null': 1, 'true': 1, 'false': 1, 'self': 1, 'dollar': 1, 'str': 2, 'num': 2, 'var': 2, 'paren': 2,
    'array': 2, 'arrcomp': 3, 'object': 2, 'objcomp': 6, 'field': 3, 'index': 3, 'slice': 5, 'sfield': 2,
    'sindex': 2, 'insuper': 2, 'call': 4, 'local': 3, 'if': 4, 'binary': 4, 'unary': 3, 'objext': 3,
    'func': 3, 'assert': 4, 'error': 2, 'implit': 2, 'implib': 2, 'imptb': 2, 'impcomp': 3, 'std': 3,
}


def is_expr(t):
    return isinstance(t, tuple) and t and isinstance(t[0], str) and EXPR_ARITY.get(t[0]) == len(t)


def walk(e, inobj, path, out):
    """Collect (path, inobj) for every expression node; inobj = analyzer's is_obj there."""
    if is_expr(e):
        out.append((tuple(path), inobj))
        k = e[0]
        if k == 'object':
            walk_members(e[1], inobj, path + [1], out)
            return
        if k == 'objext':
            walk(e[1], inobj, path + [1], out)
            walk_members(e[2], inobj, path + [2], out)
            return
        if k == 'objcomp':
            _, binds, name, plus, body, specs = e
            walk(specs, inobj, path + [5], out)
            walk(binds, True, path + [1], out)
            walk(name, inobj, path + [2], out)
            walk(body, True, path + [4], out)
            return
        if k in ('str', 'num', 'var', 'sfield', 'implit', 'imptb', 'implib'):
            return
        if k == 'field':
            walk(e[1], inobj, path + [1], out)
            return
        if k == 'impcomp':
            return  # the path expression is never analysed
        for i in range(1, len(e)):
            walk(e[i], inobj, path + [i], out)
    elif isinstance(e, (list, tuple)):
        for i, x in enumerate(e):
            walk(x, inobj, path + [i], out)


def walk_members(ms, outer_inobj, path, out):
    for i, m in enumerate(ms):
        if m[0] == 'local':
            walk(m[2], True, path + [i, 2], out)
            walk(m[3], True, path + [i, 3], out)
        elif m[0] == 'assert':
            walk(m[1], True, path + [i, 1], out)
            walk(m[2], True, path + [i, 2], out)
        elif m[0] == 'fix':
            walk(m[4], True, path + [i, 4], out)
            walk(m[5], True, path + [i, 5], out)
        else:
            walk(m[1], outer_inobj, path + [i, 1], out)   # computed name: outer environment
            walk(m[4], True, path + [i, 4], out)
            walk(m[5], True, path + [i, 5], out)


def replace(e, path, new):
    if not path:
        return new
    i = path[0]
    if isinstance(e, tuple):
        return e[:i] + (replace(e[i], path[1:], new),) + e[i + 1:]
    return e[:i] + [replace(e[i], path[1:], new)] + e[i + 1:]


def get(e, path):
    for i in path:
        e = e[i]
    return e


FAULTS_ANY = [
    ('UnknownVariable', 'zz', lambda old: ('var', 'zz')),
    ('UnknownVariable', 'zz', lambda old: ('binary', 'add', old, ('var', 'zz'))),
    ('UnknownVariable', 'zz', lambda old: ('if', ('false',), ('var', 'zz'), old)),
    ('UnknownVariable', 'zz', lambda old: ('local', [('u1', None, ('var', 'zz'))], old)),
    ('UnknownVariable', 'zz', lambda old: ('func', [('p1', ('var', 'zz'))], old)),
    ('UnknownVariable', 'zz', lambda old: ('arrcomp', ('var', 'q1'), [('for', 'q1', ('array', [])), ('if', ('var', 'zz'))])),
    ('UnknownVariable', 'q2', lambda old: ('arrcomp', ('num', 1.0), [('for', 'q1', ('var', 'q2')), ('for', 'q2', ('array', []))])),
    # a comprehension variable is not in scope in its own iterable
    ('UnknownVariable', 'q1', lambda old: ('arrcomp', ('var', 'q1'), [('for', 'q1', ('var', 'q1'))])),
    ('UnknownVariable', 'q2', lambda old: ('arrcomp', old, [('for', 'q1', ('array', [])), ('for', 'q2', ('array', [('var', 'q2')]))])),
    ('UnknownVariable', 'q1', lambda old: ('objcomp', [], ('var', 'q1'), False, ('num', 1.0), [('for', 'q1', ('std', 'objectFieldsEx', [('var', 'q1'), ('false',)]))])),
    ('UnknownVariable', 'q1', lambda old: ('arrcomp', ('num', 1.0), [('for', 'q0', ('array', [])), ('if', ('var', 'q1')), ('for', 'q1', ('array', []))])),
    # a function parameter is not visible outside the function, a local not outside its body
    ('UnknownVariable', 'p1', lambda old: ('array', [('func', [('p1', None)], old), ('var', 'p1')])),
    ('UnknownVariable', 'u1', lambda old: ('binary', 'add', ('local', [('u1', None, ('num', 1.0))], ('var', 'u1')), ('var', 'u1'))),
    # object locals are not visible in a sibling object nor in the computed field name
    ('UnknownVariable', 'l1', lambda old: ('array', [('object', [('local', 'l1', None, ('num', 1.0))]), ('object', [('fix', 'a', False, 'd', None, ('var', 'l1'))])])),
    ('UnknownVariable', 'l1', lambda old: ('object', [('local', 'l1', None, ('num', 1.0)), ('dyn', ('var', 'l1'), False, 'd', None, old)])),
    ('RepeatedLocalName', 'u1', lambda old: ('local', [('u1', None, ('num', 1.0)), ('u1', None, ('num', 2.0))], old)),
    ('RepeatedLocalName', 'u1', lambda old: ('object', [('local', 'u1', None, ('num', 1.0)), ('fix', 'a', False, 'd', None, ('num', 1.0)),
                                                         ('local', 'u1', None, ('num', 2.0))])),
    ('RepeatedLocalName', 'u1', lambda old: ('objcomp', [('u1', None, ('num', 1.0)), ('u1', None, ('num', 1.0))], ('var', 'q1'), False,
                                              ('num', 1.0), [('for', 'q1', ('array', []))])),
    ('RepeatedParamName', 'p1', lambda old: ('func', [('p1', None), ('p1', None)], old)),
    ('RepeatedParamName', 'p1', lambda old: ('local', [('u1', [('p1', None), ('p2', None), ('p1', ('num', 1.0))], ('num', 1.0))], old)),
    ('RepeatedParamName', 'p1', lambda old: ('object', [('fix', 'm', False, 'h', [('p1', None), ('p1', None)], ('num', 1.0))])),
    ('RepeatedFieldName', 'ff', lambda old: ('object', [('fix', 'ff', False, 'd', None, ('num', 1.0)), ('fix', 'ff', False, 'h', None, ('num', 2.0))])),
    ('RepeatedFieldName', 'ff', lambda old: ('objext', ('object', []), [('fix', 'ff', False, 'd', None, ('num', 1.0)),
                                                                        ('fix', 'g', False, 'd', None, ('num', 1.0)),
                                                                        ('fix', 'ff', True, 'd', None, ('num', 2.0))])),
    ('PositionalArgAfterNamed', '', lambda old: ('call', ('func', [('p1', None), ('p2', None)], ('num', 1.0)),
                                                 [('n', 'p1', ('num', 1.0)), ('p', ('num', 2.0))], False)),
    ('ComputedImportPath', '', lambda old: ('impcomp', 0, ('binary', 'add', ('str', 'a'), ('str', 'b')))),
    ('ComputedImportPath', '', lambda old: ('impcomp', 1, ('var', 'zz'))),
    ('ComputedImportPath', '', lambda old: ('impcomp', 2, ('paren', ('str', 'a')))),
    ('TextBlockAsImportPath', '', lambda old: ('imptb', 0)),
    ('TextBlockAsImportPath', '', lambda old: ('imptb', 1)),
]
FAULTS_NOT_IN_OBJ = [
    ('SelfOutsideObject', '', lambda old: ('self',)),
    ('SelfOutsideObject', '', lambda old: ('field', ('self',), 'a')),
    ('DollarOutsideObject', '', lambda old: ('dollar',)),
    ('SuperOutsideObject', '', lambda old: ('sfield', 'a')),
    ('SuperOutsideObject', '', lambda old: ('sindex', ('str', 'a'))),
    ('SuperOutsideObject', '', lambda old: ('insuper', ('str', 'a'))),
    # a computed field name is analysed in the enclosing (non-object) environment
    ('SelfOutsideObject', '', lambda old: ('object', [('dyn', ('field', ('self',), 'a'), False, 'd', None, ('num', 1.0))])),
    ('DollarOutsideObject', '', lambda old: ('objcomp', [], ('dollar',), False, ('num', 1.0), [('for', 'q1', ('array', []))])),
]


def parse_ana(out):
    w = out.split(' ')
    if w[0] == 'ok':
        return ('ok', '', '')
    if w[0] == 'err' and len(w) >= 4:
        return (w[1], w[2], vlib.unhx(w[3]).decode('utf-8', 'replace'))
    return ('other', out[:80], '')


def run(rep):
    rep.rule = ("generated well-scoped core programs (shadowing at every binder kind) and the same programs with ONE "
                "scoping fault injected at a uniformly chosen expression node (dead branches, unused locals, defaults, "
                "comprehension clauses, computed field names, object locals, ...); plus two-fault programs for the "
                "first-error order; non-trivial = fault injected below the root (depth>=1) or a fault-free program of "
                ">= 10 nodes; distinct by source text")
    rep.assumptions = ["error *spans* are not compared here (C16 checks spans); kind and name are",
                       "the model's root environment is {std}, as load_source(with_stdlib=true)"]
    vlib.prelude(rep, extra_modules=['RsjProps.C09Eval', 'RsjProps.C09Pipeline', 'RsjProps.C01Pipeline'])
    rng = rep.rng
    nbase = 250 if rep.tier == 'quick' else 6000
    gen = G.Gen(rng, max_depth=4)
    cases = []
    for _ in range(nbase):
        base = gen.program()
        cases.append({'kind': 'base', 'ast': base, 'expect': ('ok', '', ''), 'depth': 0})
        nodes = []
        walk(base, False, [], nodes)
        for _ in range(4):
            path, inobj = rng.choice(nodes)
            pool = FAULTS_ANY + ([] if inobj else FAULTS_NOT_IN_OBJ)
            if not inobj and rng.random() < 0.3:
                pool = FAULTS_NOT_IN_OBJ
            kind, name, mk = rng.choice(pool)
            faulty = replace(base, list(path), mk(get(base, path)))
            cases.append({'kind': 'fault1', 'ast': faulty, 'expect': ('analyze', kind, name), 'depth': len(path)})
        # two faults: only model-vs-implementation (which one is reported first)
        if len(nodes) >= 2:
            (p1, o1), (p2, o2) = rng.sample(nodes, 2)
            if p1[:len(p2)] != p2 and p2[:len(p1)] != p1:
                k1 = rng.choice(FAULTS_ANY)
                k2 = rng.choice(FAULTS_ANY)
                f2 = replace(replace(base, list(p1), k1[2](get(base, p1))), list(p2), k2[2](get(base, p2)))
                cases.append({'kind': 'fault2', 'ast': f2, 'expect': None, 'depth': min(len(p1), len(p2))})
    for c in cases:
        c['src'] = G.to_jsonnet(c['ast'], rng, extra=0.1 if rng.random() < 0.3 else 0.0)
        c['key'] = c['src']
    io = vlib.impl([vlib.eval_line(c['src'], load=1) for c in cases])
    mo = vlib.model(['ana ' + G.to_sexp(c['ast']) for c in cases])
    # the same source texts through the static stages of the whole-pipeline model (Lean lexer + parser + lowering + analysis)
    import core_cmp as C
    C.check_pipe_load(rep, 'c09:', [c['src'] for c in cases], io, label='generated + injected faults')
    base_ok = True
    for c, a, b in zip(cases, io, mo):
        pa = parse_ana(a)
        rep.bump(c['kind'])
        rep.bump('impl:' + (pa[1] if pa[0] == 'analyze' else pa[0]))
        nontriv = (c['kind'] != 'base' and c['depth'] >= 1) or (c['kind'] == 'base' and G.size(c['ast']) >= 10)
        rep.count(c['key'], nontriv, sample={'src': c['src'][:300], 'impl': a[:120]} if nontriv and c['kind'] == 'fault1' else None)
        if a.startswith('panic') or a.startswith('crash'):
            rep.violation('c09:' + c['src'], 'analysis crashed: ' + a[:200], {'src': c['src'], 'impl': a})
            continue
        if pa[0] in ('lex', 'parse'):
            # generator/printer problem, not a property failure: report as broken tie
            rep.disagreement('c09:' + c['src'], 'generated program does not parse', {'src': c['src'], 'impl': a})
            continue
        if c['kind'] == 'base':
            base_ok = pa[0] == 'ok'
            if pa[0] != 'ok':
                rep.violation('c09:' + c['src'], 'well-scoped program rejected: %s %s' % (pa[1], pa[2]),
                              {'src': c['src'], 'impl': a})
        elif c['kind'] == 'fault1' and base_ok:
            if pa != c['expect']:
                rep.violation('c09:' + c['src'], 'injected fault %r but analysis answered %r' % (c['expect'], pa),
                              {'src': c['src'], 'impl': a, 'expected': list(c['expect'])})
        if a != b:
            rep.disagreement('c09:' + c['src'], 'analysis outcome differs from the model',
                             {'src': c['src'], 'sexp': G.to_sexp(c['ast']), 'impl': a, 'model': b})
    # every spelling of a static field name is the same name: two spellings of one name in one object are a
    # duplicate wherever the object stands (also in code that never runs)
    def spellings(name):
        esc = name.replace('\\', '\\\\').replace('"', '\\"').replace('\n', '\\n')
        out = ['"%s"' % esc, "'%s'" % esc.replace("'", "\\'")]
        if '\n' not in name and '"' not in name:
            out.append('@"%s"' % name)
            out.append("@'%s'" % name)
        if name.isascii() and name.isidentifier() and name not in G.KEYWORDS:
            out.append(name)
        if name.endswith('\n') and not name.startswith(' ') and name.count('\n') == 1 and name != '\n':
            out.append('|||\n  %s|||' % name)
            out.append('|||\n\t%s|||' % name)
        return out
    dup = []
    for name in ['ff', 'a b', 'ff\n', 'x\n', 'é', 'k1']:
        sp = spellings(name)
        for s1 in sp:
            for s2 in sp:
                obj = '{ %s: 1, %s%s 2 }' % (s1, s2, rng.choice([':', '::', ':::', '+:']))
                frame = rng.choice(['%s', 'local dead = %s; 0', 'if false then %s else 0', 'local f() = %s; 0', '{ inner:: %s }', '[%s][1:]'])
                dup.append((name, frame % obj))
    douts = vlib.impl([vlib.eval_line(src, load=1) for _, src in dup])
    C.check_pipe_load(rep, 'c09dup:', [src for _, src in dup], douts, label='field-name spellings')
    for (name, src), a in zip(dup, douts):
        rep.bump('dup-spelling')
        rep.count('c09dup:' + src, True)
        pa = parse_ana(a)
        if a.startswith('panic') or a.startswith('crash'):
            rep.violation('c09:' + src, 'analysis crashed: ' + a[:200], {'src': src, 'impl': a})
        elif pa[0] != 'analyze' or pa[1] != 'RepeatedFieldName':
            rep.violation('c09dup:' + src, 'two spellings of the field name %r in one object were not reported as a repeated field: %r' % (name, pa),
                          {'src': src, 'impl': a, 'expected': ['analyze', 'RepeatedFieldName', name]})
    # run-time half: accepted programs never hit an unbound variable / self / $ at run time (that would be a panic)
    accepted = [c for c, a in zip(cases, io) if a == 'ok' and c['kind'] == 'base']
    eo = vlib.impl([vlib.eval_line(c['src'], max_stack=200) for c in accepted])
    for c, a in zip(accepted, eo):
        rep.bump('eval:' + a.split(' ')[0])
        if a.startswith('panic') or a.startswith('crash'):
            rep.violation('c09run:' + c['src'], 'accepted program crashed at run time: ' + a[:200], {'src': c['src'], 'impl': a})


def replay(r):
    src = r['replay']['src']
    vlib.build_harness()
    a = vlib.impl([vlib.eval_line(src, load=1)])[0]
    print('impl :', a)
    if 'sexp' in r['replay']:
        b = vlib.model(['ana ' + r['replay']['sexp']])[0]
        print('model:', b)
        return 0 if a == b else 1
    if 'pipe' in r['replay']:
        import core_cmp as C
        c = vlib.model(['pipe load ' + vlib.hx(src)])[0]
        print('pipe :', c)
        return 0 if c.startswith('unsupported') or C.norm_static(a) == C.norm_static(c) else 1
    exp = r['replay'].get('expected')
    if exp:
        print('expected:', exp)
        return 0 if list(parse_ana(a)) == exp else 1
    return 1 if a.startswith('panic') else 0
