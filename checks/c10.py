"""C10 — recursion depth is bounded by the configured limit and fails gracefully."""
import importlib
import os
import sys
import vlib
import gen_core as G
import core_cmp as C


def N(x):
    return ('num', float(x))


def V(x):
    return ('var', x)


def call(f, *args):
    return ('call', f, [('p', a) for a in args], False)


def shapes(D):
    """Recursion shapes of depth D as core syntax trees: (name, program)."""
    out = []
    dec = lambda v: ('binary', 'sub', V(v), N(1))
    is0 = lambda v: ('binary', 'eq', V(v), N(0))
    # direct function recursion (not a tail call)
    out.append(('direct', ('local', [('f', [('n', None)], ('if', is0('n'), N(0), ('binary', 'add', N(1), call(V('f'), dec('n')))))],
                           call(V('f'), N(D)))))
    # tail-position recursion without tailstrict (still one Call frame per level)
    out.append(('tailpos', ('local', [('f', [('n', None), ('acc', None)], ('if', is0('n'), V('acc'), call(V('f'), dec('n'), ('binary', 'add', V('acc'), N(1)))))],
                            call(V('f'), N(D), N(0)))))
    # mutual recursion
    out.append(('mutual', ('local', [('f', [('n', None)], ('if', is0('n'), N(0), call(V('g'), dec('n')))),
                                     ('g', [('n', None)], ('if', is0('n'), N(1), call(V('f'), dec('n'))))],
                           call(V('f'), N(D)))))
    # recursive object method through self
    out.append(('method', ('local', [('o', None, ('object', [('fix', 'f', False, 'h', [('n', None)],
                                                            ('if', is0('n'), N(0), call(('field', ('self',), 'f'), dec('n'))))]))],
                           call(('field', V('o'), 'f'), N(D)))))
    # nested arrays built by recursion, then manifested
    mk = ('local', [('mk', [('n', None)], ('if', is0('n'), ('array', []), ('array', [call(V('mk'), dec('n'))])))], None)
    out.append(('manifest-nested', ('local', mk[1], call(V('mk'), N(D)))))
    out.append(('compare-nested', ('local', mk[1], ('binary', 'eq', call(V('mk'), N(D)), call(V('mk'), N(D))))))
    out.append(('order-nested', ('local', mk[1], ('binary', 'lt', call(V('mk'), N(D)), call(V('mk'), N(D))))))
    out.append(('tostring-nested', ('local', mk[1], ('binary', 'add', ('str', ''), call(V('mk'), N(D))))))
    # nested objects
    out.append(('manifest-objects', ('local', [('mk', [('n', None)], ('if', is0('n'), ('object', []),
                                                                         ('object', [('fix', 'a', False, 'd', None, call(V('mk'), dec('n')))])))],
                                     call(V('mk'), N(D)))))
    # chain of thunks
    binds = [('a0', None, N(1))] + [('a%d' % i, None, ('binary', 'add', V('a%d' % (i - 1)), N(1))) for i in range(1, D + 1)]
    out.append(('thunk-chain', ('local', binds, V('a%d' % D))))
    # inheritance chain with super
    obj = ('object', [('fix', 'f', False, 'd', None, N(0))])
    for _ in range(D):
        obj = ('binary', 'add', obj, ('object', [('fix', 'f', False, 'd', None, ('binary', 'add', ('sfield', 'f'), N(1)))]))
    out.append(('super-chain', ('field', obj, 'f')))
    # inheritance chain through the `f+:` sugar
    obj = ('object', [('fix', 'f', False, 'd', None, N(0))])
    for _ in range(D):
        obj = ('binary', 'add', obj, ('object', [('fix', 'f', True, 'd', None, N(1))]))
    out.append(('plus-chain', ('field', obj, 'f')))
    # the same, folded at run time (one object expression, D layers)
    out.append(('plus-chain-rt', ('local', [('mk', [('n', None)], ('if', is0('n'), ('object', [('fix', 'f', False, 'd', None, N(0))]),
                                                                   ('binary', 'add', call(V('mk'), dec('n')), ('object', [('fix', 'f', True, 'd', None, N(1))]))))],
                                  ('binary', 'add', ('field', call(V('mk'), N(D)), 'f'), N(0)))))
    # nested objects compared
    mko = [('mk', [('n', None)], ('if', is0('n'), ('object', []), ('object', [('fix', 'a', False, 'd', None, call(V('mk'), dec('n')))])))]
    out.append(('compare-objects', ('local', mko, ('binary', 'eq', call(V('mk'), N(D)), call(V('mk'), N(D))))))
    # arrays with two elements per level (the nested one last / first)
    mk2 = [('mk', [('n', None)], ('if', is0('n'), ('array', []), ('array', [N(0), call(V('mk'), dec('n'))])))]
    out.append(('compare-nested2', ('local', mk2, ('binary', 'ne', call(V('mk'), N(D)), call(V('mk'), N(D))))))
    out.append(('manifest-nested2', ('local', mk2, call(V('mk'), N(D)))))
    # default-argument chain: each level's default forces the next
    out.append(('default-chain', ('local', [('f', [('n', None), ('x', ('if', is0('n'), N(0), ('binary', 'add', N(1), call(V('f'), dec('n')))))], V('x'))],
                                  call(V('f'), N(D)))))
    # nested conditions / asserts inside the recursion
    out.append(('assert-chain', ('local', [('f', [('n', None)], ('assert', ('binary', 'ge', V('n'), N(0)), None,
                                                                 ('if', is0('n'), N(0), ('binary', 'add', N(1), call(V('f'), dec('n'))))))],
                                 call(V('f'), N(D)))))
    # callbacks of std.filter / std.foldl / std.flatMap / ... (frames pushed per element up front, or per level)
    out.extend(G.std_shapes(D))
    return out


def cycles(K):
    """Self-dependent values with a cycle of K thunks."""
    out = []
    binds = [('c%d' % i, None, V('c%d' % ((i + 1) % K))) for i in range(K)]
    out.append(('local-cycle', ('local', binds, V('c0'))))
    fields = [('fix', 'f%d' % i, False, 'd', None, ('field', ('self',), 'f%d' % ((i + 1) % K))) for i in range(K)]
    out.append(('field-cycle', ('field', ('object', fields), 'f0')))
    out.append(('field-cycle-manifest', ('object', fields)))
    out.append(('arith-cycle', ('local', [('c0', None, ('binary', 'add', V('c0'), N(1)))], V('c0'))))
    return out


CYCLE_NAMES = ('local-cycle', 'field-cycle', 'field-cycle-manifest', 'arith-cycle')


def classify(ans):
    if ans.startswith('ok'):
        return 'ok'
    if 'StackOverflow' in ans:
        return 'SO'
    if 'InfiniteRecursion' in ans:
        return 'IR'
    if ans.startswith('panic') or ans.startswith('crash'):
        return 'CRASH'
    return 'err'


def run(rep):
    rep.rule = ("recursion shapes (direct/tail-position/mutual functions, methods through self, nested arrays/objects "
                "manifested, compared with == and <, converted to string, thunk chains, super chains) of depth d, and "
                "self-dependent values with cycles of k thunks, each under limits s around the boundary; plus generated "
                "programs under small limits; non-trivial = limit within +-3 of the shape's first succeeding limit; "
                "distinct by (shape, d, s)")
    rep.assumptions = ["an endless tailstrict self-call never exceeds the limit by design and is not generated (DESIGN.md C10)",
                       "native-stack probes run inside the harness thread (1 GiB stack), the CLI main thread is covered by C01"]
    # regenerate the source-derived trace-site table first (a broken extractor is a broken tie)
    ext = os.path.join(vlib.VERIF, 'tools', 'extract_tracesites.py')
    if os.path.exists(ext):
        sys.path.insert(0, os.path.join(vlib.VERIF, 'tools'))
        try:
            importlib.import_module('extract_tracesites').generate()
        except Exception as e:  # noqa
            rep.broken_tie('tools/extract_tracesites.py cannot regenerate the trace-site table from /repo', repr(e)[:2000])
    vlib.prelude(rep, extra_modules=['RsjProps.C10Eval'])
    rng = rep.rng
    quick = rep.tier == 'quick'
    depths = [1, 2, 3, 5, 8, 13] if quick else list(range(1, 30)) + [40, 60]
    cases = []
    for D in depths:
        for name, prog in shapes(D):
            cases.append((name, D, prog))
    for K in ([1, 2, 3, 6] if quick else list(range(1, 12))):
        for name, prog in cycles(K):
            cases.append((name, K, prog))
    # find, per case, the outcome for every limit in a window (implementation + model)
    jobs = []
    for name, D, prog in cases:
        lims = sorted(set([0, 1, 2, 3] + list(range(max(0, D - 2), 3 * D + 8)) + [500]))
        if quick:
            lims = [s for s in lims if s % 2 == 0 or s < 12] + [500]
        for s in sorted(set(lims)):
            jobs.append((name, D, prog, s))
    il = [vlib.eval_line(G.to_jsonnet(p), max_stack=s) for _, _, p, s in jobs]
    ml = ['core %d %d 0 %s' % (s, 6000, G.to_sexp(p)) for _, _, p, s in jobs]
    io = [C.canon_impl(a) for a in vlib.impl(il)]
    mo = vlib.model(ml)
    # the same source texts, each under its limit, through the whole-pipeline model (lexer + parser + lowering + evaluator)
    C.check_pipe(rep, 'c10:', [G.to_jsonnet(p) for _, _, p, _ in jobs], io, mo, max_stack=[s for _, _, _, s in jobs], fuel=6000, traces=False,
                 label='nesting shapes x limits')
    by_case = {}
    for (name, D, prog, s), a, b in zip(jobs, io, mo):
        by_case.setdefault((name, D), []).append((s, a, b, prog))
        rep.bump('impl:' + classify(a))
    for (name, D), rows in by_case.items():
        rows.sort()
        first_ok = next((s for s, a, _, _ in rows if classify(a) == 'ok'), None)
        final = rows[-1][1]
        for s, a, b, prog in rows:
            key = 'c10:%s:%d:%d' % (name, D, s)
            near = first_ok is not None and abs(s - first_ok) <= 3
            rep.count(key, near or classify(a) == 'IR', sample={'shape': name, 'depth': D, 'limit': s, 'impl': a[:80]} if near and s == first_ok else None)
            cl = classify(a)
            src = G.to_jsonnet(prog)
            if cl == 'CRASH':
                rep.violation(key, 'evaluation crashed instead of reporting: ' + a[:160], {'src': src, 'max_stack': s, 'impl': a})
                continue
            # graceful: below the needed limit the only acceptable failure is StackOverflow (or the program's own error)
            if classify(final) == 'ok' and cl not in ('ok', 'SO'):
                rep.violation(key, 'under limit %d the program failed with %s instead of stack overflow' % (s, a[:80]),
                              {'src': src, 'max_stack': s, 'impl': a})
            # bounded: every level of these shapes needs at least one frame, so depth D cannot succeed under a limit < D
            if cl == 'ok' and s < D and classify(final) == 'ok' and name not in CYCLE_NAMES:
                rep.violation(key, 'nesting of depth %d was evaluated under limit %d: the limit does not bound this shape' % (D, s),
                              {'src': src, 'max_stack': s, 'impl': a})
            # monotone: once it succeeds, every larger limit gives the same value
            if first_ok is not None and s >= first_ok and C.norm(a) != C.norm(next(x[1] for x in rows if x[0] == first_ok)):
                rep.violation(key, 'raising the limit from %d to %d changed the outcome' % (first_ok, s),
                              {'src': src, 'max_stack': s, 'first_ok': first_ok, 'impl': a})
            # self-dependent values: infinite recursion, or stack overflow when the limit is smaller than the cycle
            if classify(final) == 'IR' and cl not in ('IR', 'SO'):
                rep.violation(key, 'self-dependent value answered %s' % a[:80], {'src': src, 'max_stack': s, 'impl': a})
            if classify(final) == 'IR' and cl == 'IR':
                # from here on every larger limit must also say infinite recursion
                pass
            if not (b.startswith('unsupported') or b.startswith('gas')) and C.norm(a) != C.norm(b):
                rep.disagreement(key, 'outcome at this limit differs from the model (frame accounting)',
                                 {'src': src, 'sexp': G.to_sexp(prog), 'max_stack': s, 'impl': a, 'model': b})
    # generated programs under small limits: model agreement + monotonicity
    gen = G.Gen(rng, max_depth=5)
    progs = [gen.program() for _ in range(200 if quick else 5000)]
    lims = [2, 4, 7, 11, 500]
    res = {}
    for s in lims:
        srcs, io2, mo2 = C.run_pair(progs, max_stack=s, fuel=6000, traces=False)
        C.check_pipe(rep, 'c10g:%d:' % s, srcs, io2, mo2, max_stack=s, fuel=6000, traces=False, label='generated x small limits')
        for i, (src, a, b) in enumerate(zip(srcs, io2, mo2)):
            res.setdefault(i, []).append((s, a))
            rep.count('c10g:%d:%s' % (s, src), classify(a) == 'SO')
            if classify(a) == 'CRASH':
                rep.violation('c10g:' + src, 'evaluation crashed: ' + a[:160], {'src': src, 'max_stack': s, 'impl': a})
            elif ' analyze ' not in a and not (b.startswith('unsupported') or b.startswith('gas')) and C.norm(a) != C.norm(b):
                rep.disagreement('c10g:%d:%s' % (s, src), 'outcome at this limit differs from the model',
                                 {'src': src, 'sexp': G.to_sexp(progs[i]), 'max_stack': s, 'impl': a, 'model': b})
    # directed cases for the callback builtins under small limits (frames pushed per element up front / per level)
    std_progs = G.std_cases(rng, 300 if quick else 6000)
    for s in [3, 5, 8, 12]:
        C.compare_cases(rep, std_progs, 'c10std:%d:' % s, s, False, 'callback builtin: outcome at this limit differs from the model (frame accounting)')
    for i, rows in res.items():
        ok = [(s, a) for s, a in rows if classify(a) == 'ok']
        if ok and any(C.norm(a) != C.norm(ok[0][1]) for s, a in rows if s >= ok[0][0]):
            rep.violation('c10mono:' + G.to_jsonnet(progs[i]), 'raising the limit changed a successful outcome',
                          {'src': G.to_jsonnet(progs[i]), 'rows': [[s, a[:80]] for s, a in rows]})
    # endless structures handed to every builtin: each call must be answered (a value or an error), never loop forever
    listing = vlib.impl([vlib.eval_line('[[f, std.length(std[f])] for f in std.objectFieldsAll(std) if std.isFunction(std[f])]')])[0]
    try:
        import json as _json
        members = _json.loads(vlib.unhx(listing.split(' ')[1]).decode('utf-8'))
    except Exception:
        members = []
        rep.broken_tie('cannot list the functions of std', listing[:200])
    INF = ['{x: self}', 'local a = [a]; a', '{x: [self]}', 'local f(n) = [f(n + 1)]; f(0)', 'local f(n) = {a: f(n + 1)}; f(0)']
    OTHER = ['function(x) x', '"x"', '1', '[]', '{}', 'function(a, b) a', 'true', '" "', '2']
    calls = []
    for name, ar in members:
        for pos in range(int(ar)):
            for inf in (rng.sample(INF, 1) if quick else INF):
                args = [rng.choice(OTHER) for _ in range(int(ar))]
                args[pos] = inf
                calls.append('std.%s(%s)' % (name, ', '.join(args)))
    if quick:
        calls = rng.sample(calls, min(len(calls), 260))
    calls += ['std.prune({x: self})', 'std.deepJoin(local a = [a]; a)', 'std.flattenDeepArray(local a = [a]; a)',
              'std.mergePatch("x", {x: self})', 'std.manifestJsonEx({x: self}, " ")', 'std.toString(local a = [a]; a)',
              '{x: self} == {x: self}', 'local a = [a]; a < a', '(local a = [a]; a) == (local b = [b]; b)',
              '(local a = [a]; a) != (local b = [b]; b)', 'std.assertEqual(local a = [a]; a, local b = [b]; b)',
              '(local a = [1, a]; a) == (local b = [1, b]; b)', '(local a = {x+: 1} + a; a).x', 'local o = {x+: 1, y: o + o}; o.y.y.x', 'std.manifestYamlDoc({x: self})', 'std.manifestTomlEx({x: self}, " ")',
              'std.manifestPython({x: self})', 'std.manifestXmlJsonml(local a = ["a", a]; a)', 'std.manifestIni({sections: {x: self}})']
    for i in range(0, len(calls), 40):
        chunk = calls[i:i + 40]
        outs = vlib.impl([vlib.eval_line('local r = (%s); if std.isFunction(r) then 1 else r' % c, max_stack=300) for c in chunk],
                         timeout=90, mem_limit=4 * 1024 ** 3)
        for c, a in zip(chunk, outs):
            rep.count('c10inf:' + c, True)
            if 'rc=timeout' in a:
                rep.bump('inf:timeout')
                rep.violation('c10inf:' + c, 'endless structure is not stopped by the frame limit (no answer within the time-out)',
                              {'src': c, 'max_stack': 300, 'impl': a[:120]})
            elif classify(a) == 'CRASH':
                rep.bump('inf:crash')
                rep.violation('c10inf:' + c, 'endless structure crashed the evaluator: ' + a[:120], {'src': c, 'max_stack': 300, 'impl': a[:200]})
            else:
                rep.bump('inf:' + classify(a))
    import_cycles(rep, rng, quick)
    huge_limits(rep, rng, quick)
    # native stack: deep evaluation with a huge limit must not abort
    big = 20000 if quick else 200000
    deep = [
        'local f(n) = if n == 0 then 0 else 1 + f(n - 1); f(%d)' % big,
        'local mk(n) = if n == 0 then [] else [mk(n - 1)]; std.length(std.toString(mk(%d)))' % (big // 4),
        'local mk(n) = if n == 0 then [] else [mk(n - 1)]; mk(%d) == mk(%d)' % (big // 4, big // 4),
        'std.foldl(function(a, i) [a], std.range(1, %d), [])[0][0] == []' % (big // 4),
        'std.length(std.manifestJsonEx(std.foldl(function(a, i) {a: a}, std.range(1, %d), {}), ""))' % (big // 10),
    ]
    outs = vlib.impl([vlib.eval_line(s, max_stack=10 * big) for s in deep], timeout=600)
    for s, a in zip(deep, outs):
        rep.count('c10deep:' + s, True)
        rep.bump('deep:' + classify(a))
        if classify(a) == 'CRASH':
            rep.violation('c10deep:' + s, 'native stack exhausted / crash on deep evaluation: ' + a[:160],
                          {'src': s, 'max_stack': 10 * big, 'impl': a})


def huge_limits(rep, rng, quick):
    """Raising the limit never changes the outcome of a program that already succeeded: also for the largest limits the
    option accepts (what a user writes for "no limit"), in-process and through the real binary."""
    import subprocess
    import os
    progs = ['1 + 2', 'local f(n) = if n == 0 then 0 else 1 + f(n - 1); f(40)', 'std.length(std.toString(std.range(1, 50)))',
             '[x * 2 for x in [1, 2, 3]] == [2, 4, 6]', '{a: 1} + {b: self.a}', 'error "stop"', 'local a = a; a']
    limits = [10 ** 6, 2 ** 31, 2 ** 32 + 1, 2 ** 63 - 1, 2 ** 63, 2 ** 64 - 1]
    base = [C.canon_impl(a) for a in vlib.impl([vlib.eval_line(p, max_stack=500) for p in progs])]
    for lim in limits:
        outs = [C.canon_impl(a) for a in vlib.impl([vlib.eval_line(p, max_stack=lim) for p in progs], timeout=120)]
        for p, b, a in zip(progs, base, outs):
            rep.count('c10huge:%d:%s' % (lim, p), True)
            rep.bump('huge-limit')
            if classify(a) == 'CRASH' or C.norm(a) != C.norm(b):
                rep.violation('c10huge:%d:%s' % (lim, p), 'outcome under limit %d differs from the outcome under limit 500: %s vs %s'
                              % (lim, a[:80], b[:80]), {'src': p, 'max_stack': lim, 'impl': a[:200]})
    vlib.build_cli()
    for lim in (2 ** 63, 2 ** 64 - 1):
        for p in progs[:4]:
            q = subprocess.run([vlib.CLI_BIN, '--max-stack', str(lim), '-e', p], stdout=subprocess.PIPE, stderr=subprocess.PIPE, timeout=120)
            r = subprocess.run([vlib.CLI_BIN, '--max-stack', '500', '-e', p], stdout=subprocess.PIPE, stderr=subprocess.PIPE, timeout=120)
            rep.count('c10hugecli:%d:%s' % (lim, p), True)
            if (q.returncode, q.stdout) != (r.returncode, r.stdout):
                rep.violation('c10hugecli:%d:%s' % (lim, p), 'rsjsonnet --max-stack %d answers rc=%s %r, --max-stack 500 answers rc=%s %r'
                              % (lim, q.returncode, (q.stdout or q.stderr)[:80], r.returncode, r.stdout[:80]),
                              {'src': p, 'max_stack': lim, 'cli': True})


def import_cycles(rep, rng, quick):
    """A file that depends on itself through imports is a value that depends on itself, however the import
    paths are spelled (./, ../, sub-directories, symbolic links, -J): the real binary must report infinite
    recursion under every limit larger than the cycle (and stack overflow or infinite recursion under a smaller one)."""
    import os
    import shutil
    import subprocess
    vlib.build_cli()
    base = os.path.join(vlib.TMP, 'c10_cyc_%d' % os.getpid())
    SPELL = ['{n}', './{n}', 'sub/../{n}', '../{top}/{n}', 'sub/./../{n}', 'link/{n}', '{abs}/{n}', 'sub/../sub/../{n}']
    for case in range(12 if quick else 120):
        shutil.rmtree(base, ignore_errors=True)
        top = os.path.join(base, 'top')
        os.makedirs(os.path.join(top, 'sub'))
        os.symlink('.', os.path.join(top, 'link'))
        k = rng.choice([1, 2, 3, 4])
        files = ['f%d.jsonnet' % i for i in range(k)]
        spells = []
        for i in range(k):
            nxt = files[(i + 1) % k]
            sp = rng.choice(SPELL).format(n=nxt, top='top', abs=top)
            spells.append(sp)
            # every form NEEDS the imported value (a lazy use such as `[import "f"]` is an endless structure, not a cycle)
            form = rng.choice(['(import "%s") + 1', 'local x = import "%s"; x + 1', '{a: import "%s"}.a', 'std.length(import "%s")',
                               'if (import "%s") == 1 then 1 else 2'])
            with open(os.path.join(top, files[i]), 'w') as f:
                f.write(form % sp)
        for limit in (500, 37, 5000):
            for how in ('abs', 'rel'):
                arg = os.path.join(top, files[0]) if how == 'abs' else files[0]
                try:
                    p = subprocess.run([vlib.CLI_BIN, '--max-stack', str(limit), arg], cwd=top, stdout=subprocess.PIPE,
                                       stderr=subprocess.PIPE, timeout=120, env=dict(os.environ, NO_COLOR='1'))
                    rc, err = p.returncode, p.stderr.decode('utf-8', 'replace')
                except subprocess.TimeoutExpired:
                    rc, err = 'timeout', ''
                key = 'c10cyc:%s|%d|%s' % ('>'.join(spells), limit, how)
                rep.count(key, any('..' in sp or 'link' in sp for sp in spells))
                first = err.strip().splitlines()[0] if err.strip() else ''
                ok = rc == 1 and 'infinite recursion' in first
                rep.bump('import-cycle:' + ('IR' if ok else ('SO' if 'stack overflow' in first else 'other')))
                if not ok:
                    rep.violation(key, 'import cycle of %d file(s) spelled %s under limit %d answered rc=%s %s (expected infinite recursion)'
                                  % (k, spells, limit, rc, first[:100]),
                                  {'import_cycle': {'spells': spells, 'forms': [open(os.path.join(top, f)).read() for f in files],
                                                    'limit': limit, 'how': how}, 'stderr': err[:400]})
    shutil.rmtree(base, ignore_errors=True)


def replay_import_cycle(ic):
    import os
    import shutil
    import subprocess
    vlib.build_cli()
    base = os.path.join(vlib.TMP, 'c10_cyc_replay_%d' % os.getpid())
    shutil.rmtree(base, ignore_errors=True)
    top = os.path.join(base, 'top')
    os.makedirs(os.path.join(top, 'sub'))
    os.symlink('.', os.path.join(top, 'link'))
    for i, body in enumerate(ic['forms']):
        open(os.path.join(top, 'f%d.jsonnet' % i), 'w').write(body.replace(ic.get('abs', '\0'), top))
    arg = os.path.join(top, 'f0.jsonnet') if ic['how'] == 'abs' else 'f0.jsonnet'
    p = subprocess.run([vlib.CLI_BIN, '--max-stack', str(ic['limit']), arg], cwd=top, stdout=subprocess.PIPE, stderr=subprocess.PIPE,
                       timeout=120, env=dict(os.environ, NO_COLOR='1'))
    err = p.stderr.decode('utf-8', 'replace')
    print('rc', p.returncode, err.strip().splitlines()[:1])
    shutil.rmtree(base, ignore_errors=True)
    return 0 if (p.returncode == 1 and 'infinite recursion' in err.splitlines()[0]) else 1


def replay(r):
    rp = r['replay']
    if 'import_cycle' in rp:
        return replay_import_cycle(rp['import_cycle'])
    if rp.get('cli'):
        import subprocess
        vlib.build_cli()
        q = subprocess.run([vlib.CLI_BIN, '--max-stack', str(rp['max_stack']), '-e', rp['src']], stdout=subprocess.PIPE, stderr=subprocess.PIPE)
        r = subprocess.run([vlib.CLI_BIN, '--max-stack', '500', '-e', rp['src']], stdout=subprocess.PIPE, stderr=subprocess.PIPE)
        print(q.returncode, q.stdout[:100], q.stderr[:200]); print(r.returncode, r.stdout[:100])
        return 0 if (q.returncode, q.stdout) == (r.returncode, r.stdout) else 1
    vlib.build_harness()
    a = C.canon_impl(vlib.impl([vlib.eval_line(rp['src'], max_stack=rp.get('max_stack', 500))])[0])
    print('impl :', a)
    if 'sexp' in rp:
        b = vlib.model(['core %d 6000 0 %s' % (rp.get('max_stack', 500), rp['sexp'])])[0]
        print('model:', b)
        return 0 if C.norm(a) == C.norm(b) and not C.replay_pipe(rp, a) else 1
    if 'pipe' in rp:
        return C.replay_pipe(rp, a)
    if rp.get('max_stack', 0) > 10 ** 5:
        b = C.canon_impl(vlib.impl([vlib.eval_line(rp['src'], max_stack=500)])[0])
        print('limit 500:', b)
        return 1 if (classify(a) == 'CRASH' or C.norm(a) != C.norm(b)) else 0
    return 1 if classify(a) == 'CRASH' else 0
