"""Shared machinery for the /verif checks (see DESIGN.md §2, §4)."""
import fcntl
import hashlib
import json
import os
import random
import re
import subprocess
import sys
import time

VERIF = os.path.dirname(os.path.abspath(__file__))
REPO = "/repo"
BUILD = os.path.join(VERIF, ".build")
LEAN_DIR = os.path.join(VERIF, "lean")
HARNESS_DIR = os.path.join(VERIF, "harness")
HARNESS_BIN = os.path.join(BUILD, "cargo", "release", "rsjharness")
MODEL_BIN = os.path.join(LEAN_DIR, ".lake", "build", "bin", "rsjmodel")
CLI_BIN = os.path.join(BUILD, "cli", "debug", "rsjsonnet")
REPLAYS = os.path.join(VERIF, "replays")
EVIDENCE = os.path.join(VERIF, "evidence")
TMP = os.path.join(BUILD, "tmp")

ALLOWED_AXIOMS = {"propext", "Classical.choice", "Quot.sound"}
FORBIDDEN = re.compile(
    r"\bsorry\b|\badmit\b|^axiom |native_decide|bv_decide|implemented_by|\bunsafe |maxHeartbeats 0",
    re.M,
)

ENV = dict(os.environ)
ENV["CARGO_NET_OFFLINE"] = "true"
# harness/.cargo/config.toml names /verif/.build/cargo; a copy of /verif elsewhere (work packages,
# background runs from a snapshot) builds into its own .build instead
ENV["CARGO_TARGET_DIR"] = os.path.join(BUILD, "cargo")


def hx(b):
    if isinstance(b, str):
        b = b.encode("utf-8")
    return b.hex() if b else "-"


def unhx(s):
    return b"" if s == "-" else bytes.fromhex(s)


class Lock:
    def __init__(self, name):
        os.makedirs(BUILD, exist_ok=True)
        self.path = os.path.join(BUILD, name + ".lock")

    def __enter__(self):
        self.f = open(self.path, "w")
        fcntl.flock(self.f, fcntl.LOCK_EX)
        return self

    def __exit__(self, *a):
        fcntl.flock(self.f, fcntl.LOCK_UN)
        self.f.close()


def sh(cmd, cwd=None, timeout=None, env=None, input=None):
    p = subprocess.run(
        cmd, cwd=cwd, env=env or ENV, stdout=subprocess.PIPE, stderr=subprocess.STDOUT,
        timeout=timeout, input=input,
    )
    return p.returncode, p.stdout.decode("utf-8", "replace")


class BrokenTie(Exception):
    """A build / proof / extractor step failed: the tie to /repo is broken."""

    def __init__(self, what, detail):
        super().__init__(what)
        self.what = what
        self.detail = detail


def build_harness():
    with Lock("cargo"):
        rc, out = sh(["cargo", "build", "--release", "--offline"], cwd=HARNESS_DIR, timeout=1800)
    if rc != 0:
        # development aid only (never set by the registered commands): another work package may have a
        # half-edited ops_*.rs; keep using the last good binary
        if os.environ.get("VERIF_ALLOW_STALE") == "1" and os.path.exists(HARNESS_BIN):
            print("warning: harness build failed, using the existing binary", file=sys.stderr)
            return
        raise BrokenTie("harness build (cargo) failed against /repo working tree", out[-4000:])


def build_cli():
    with Lock("cargo-cli"):
        rc, out = sh(
            ["cargo", "build", "--offline", "--manifest-path", os.path.join(REPO, "Cargo.toml"),
             "-p", "rsjsonnet", "--target-dir", os.path.join(BUILD, "cli")],
            cwd=REPO, timeout=1800)
    if rc != 0:
        raise BrokenTie("CLI build (cargo) failed against /repo working tree", out[-4000:])


def lean_sources():
    res = []
    for root, _, files in os.walk(LEAN_DIR):
        if ".lake" in root:
            continue
        for f in files:
            if f.endswith(".lean"):
                res.append(os.path.join(root, f))
    return sorted(res)


def strip_lean_comments(src):
    # remove /- ... -/ (nested) and -- line comments
    out = []
    i, depth, n = 0, 0, len(src)
    while i < n:
        if src.startswith("/-", i):
            depth += 1
            i += 2
        elif depth and src.startswith("-/", i):
            depth -= 1
            i += 2
        elif depth:
            i += 1
        elif src.startswith("--", i):
            while i < n and src[i] != "\n":
                i += 1
        else:
            out.append(src[i])
            i += 1
    return "".join(out)


def audit_lean_sources():
    bad = []
    for p in lean_sources():
        txt = strip_lean_comments(open(p, encoding="utf-8").read())
        # string literals may mention words; drop them
        txt = re.sub(r'"(\\.|[^"\\])*"', '""', txt)
        for m in FORBIDDEN.finditer(txt):
            bad.append((p, m.group(0)))
    return bad


def lake_build(targets):
    with Lock("lake"):
        rc, out = sh(["lake", "build"] + targets, cwd=LEAN_DIR, timeout=3600)
    return rc, out


def check_props(prop, extra_modules=()):
    """Build model + proofs, re-elaborate RsjProps/<prop>.lean, audit axioms.

    Returns (obligations, discharged, theorem list). Raises BrokenTie when the
    proof no longer checks."""
    rc, out = lake_build(["RsjProps." + prop] + list(extra_modules))
    if rc != 0:
        raise BrokenTie("lake build RsjProps.%s failed (a proof obligation no longer checks)" % prop,
                        out[-6000:])
    # Re-elaborate the property file itself so the axiom report is always fresh.
    out = ""
    for mod in ["RsjProps." + prop] + list(extra_modules):
        with Lock("lake"):
            rc, o = sh(["lake", "env", "lean", mod.replace(".", os.sep) + ".lean"], cwd=LEAN_DIR, timeout=1800)
        if rc != 0:
            raise BrokenTie("lean %s.lean failed" % mod.replace(".", "/"), o[-6000:])
        out += o
    thms = []
    for m in re.finditer(r"'([^']+)' depends on axioms: \[([^\]]*)\]", out):
        axs = {a.strip() for a in m.group(2).split(",") if a.strip()}
        thms.append((m.group(1), sorted(axs)))
    for m in re.finditer(r"'([^']+)' does not depend on any axioms", out):
        thms.append((m.group(1), []))
    if not thms:
        raise BrokenTie("no '#print axioms' output for %s" % prop, out[-2000:])
    bad = [(n, a) for n, a in thms if not set(a) <= ALLOWED_AXIOMS]
    if bad:
        raise BrokenTie("theorem depends on a non-standard axiom (sorryAx or other)", repr(bad))
    forb = audit_lean_sources()
    if forb:
        raise BrokenTie("forbidden construct in Lean sources", repr(forb[:10]))
    return len(thms), len(thms), thms


def _limit_mem(nbytes):
    def f():
        import resource
        resource.setrlimit(resource.RLIMIT_AS, (nbytes, nbytes))
    return f


def run_lines(binary, lines, timeout=1800, chunk=None, mem_limit=None):
    """Feed lines to a line-protocol driver; survive crashes of the driver.
    mem_limit (bytes): address-space limit for the driver process (allocation failure aborts it)."""
    os.makedirs(TMP, exist_ok=True)
    outs = []
    i = 0
    n = len(lines)
    while i < n:
        data = ("\n".join(lines[i:]) + "\n").encode("utf-8")
        try:
            p = subprocess.run([binary], input=data, stdout=subprocess.PIPE,
                               stderr=subprocess.PIPE, timeout=timeout,
                               preexec_fn=_limit_mem(mem_limit) if mem_limit else None)
            got = p.stdout.decode("utf-8", "replace").split("\n")
            if got and got[-1] == "":
                got.pop()
            rc = p.returncode
            err = p.stderr.decode("utf-8", "replace")
            if len(err) > 900:
                # keep the message (first lines) as well as the end of a back-trace
                err = err[:500] + "\n...\n" + err[-300:]
        except subprocess.TimeoutExpired as e:
            got = (e.stdout or b"").decode("utf-8", "replace").split("\n")
            if got and got[-1] == "":
                got.pop()
            rc = "timeout"
            err = ""
        if len(got) >= n - i:
            outs.extend(got[: n - i])
            break
        # driver died on line i+len(got)
        outs.extend(got)
        i += len(got)
        outs.append("crash rc=%s %s" % (rc, hx(err)))
        i += 1
    return outs


def impl(lines, **kw):
    return run_lines(HARNESS_BIN, lines, **kw)


OP_MODULE = {"span": "Span", "gcscript": "Gc", "sort": "Sort", "lex": "Lexer", "parse": "Parser", "json": "Json",
             "codec": "Codec", "obj": "Object", "fmt": "Format", "str": "Str", "cmp": "Compare", "core": "Eval",
             "ana": "Analyze", "thunk": "Thunk", "tstack": "TraceStack", "num": "Num", "cli": "Cli", "imp": "Import",
             "yaml": "Yaml", "toml": "Toml", "pipe": "Pipeline"}
_built_drivers = set()


def driver_bin(op):
    return os.path.join(LEAN_DIR, ".lake", "build", "bin", "drv_" + op)


def build_driver(op):
    """(Re)build the stand-alone model driver for one op (each module has its own
    executable so that a broken module cannot block the others)."""
    if op in _built_drivers:
        return
    rc, out = lake_build(["drv_" + op])
    if rc != 0:
        raise BrokenTie("model driver drv_%s failed to build" % op, out[-4000:])
    _built_drivers.add(op)


def model(lines, **kw):
    """Run request lines through the Lean model driver(s); lines are routed by op."""
    ops = []
    for l in lines:
        op = l.split(" ", 1)[0]
        if op not in ops:
            ops.append(op)
    if len(ops) == 1:
        op = ops[0]
        if op not in OP_MODULE:
            return ["bad-op"] * len(lines)
        build_driver(op)
        return run_lines(driver_bin(op), lines, **kw)
    outs = [None] * len(lines)
    for op in ops:
        idx = [i for i, l in enumerate(lines) if l.split(" ", 1)[0] == op]
        if op not in OP_MODULE:
            res = ["bad-op"] * len(idx)
        else:
            build_driver(op)
            res = run_lines(driver_bin(op), [lines[i] for i in idx], **kw)
        for i, r in zip(idx, res):
            outs[i] = r
    return outs


def seed_tier(argv=None):
    seed = int(os.environ.get("VERIF_SEED", "0") or 0)
    tier = os.environ.get("VERIF_TIER", "quick")
    return seed, tier


def jsonnet_str(s):
    """A Jsonnet string literal for the unicode string s."""
    out = ['"']
    for ch in s:
        o = ord(ch)
        if ch == '"':
            out.append('\\"')
        elif ch == "\\":
            out.append("\\\\")
        elif o < 0x20 or o == 0x7F:
            out.append("\\u%04x" % o)
        elif o > 0xFFFF:
            o -= 0x10000
            out.append("\\u%04x\\u%04x" % (0xD800 + (o >> 10), 0xDC00 + (o & 0x3FF)))
        elif o > 0x7E:
            out.append("\\u%04x" % o)
        else:
            out.append(ch)
    out.append('"')
    return "".join(out)


def eval_line(src, **opts):
    parts = ["eval", hx(src)]
    for k, v in opts.items():
        parts.append("%s=%s" % (k, v))
    return " ".join(parts)


def parse_eval(out):
    """-> ('ok', text) | ('err', stage, kind, detail) | ('panic', msg) | ('crash', ..)"""
    w = out.split(" ")
    if w[0] == "ok":
        return ("ok", unhx(w[1]).decode("utf-8", "replace"))
    if w[0] == "err":
        return ("err", w[1], w[2], unhx(w[3]).decode("utf-8", "replace") if len(w) > 3 else "")
    if w[0] == "panic":
        return ("panic", unhx(w[1]).decode("utf-8", "replace") if len(w) > 1 else "")
    return ("crash", out)


class Known:
    def __init__(self):
        p = os.path.join(VERIF, "known_findings.json")
        self.entries = json.load(open(p))["findings"] if os.path.exists(p) else []

    def match(self, prop, key):
        """key: canonical string identifying the failing input / call site."""
        for e in self.entries:
            if e.get("status") == "open" and e["property"] == prop and e["key"] == key:
                return e
        return None


class Report:
    """Collects coverage, violations, known findings; writes evidence + verdict."""

    def __init__(self, prop, level="proof"):
        self.prop = prop
        self.seed, self.tier = seed_tier()
        self.level = level
        self.t0 = time.time()
        self.evaluations = 0
        self.distinct = set()
        self.samples = []
        self.dist = {}
        self.violations = []   # (key, description, replay dict)
        self.known_hits = {}
        self.broken = []       # (what, detail)
        self.obligations = 0
        self.discharged = 0
        self.theorems = []
        self.trusted = []
        self.assumptions = []
        self.rule = ""
        self.checker_cmd = "cd /verif/lean && lake build RsjProps.%s && lake env lean RsjProps/%s.lean (axiom audit: subset of propext, Classical.choice, Quot.sound)" % (prop, prop)
        self.known = Known()
        self.extra = {}
        self.model_disagreements = []
        self.rng = random.Random(self.seed * 1000003 + int(hashlib.sha1(prop.encode()).hexdigest()[:6], 16))

    def count(self, case_key, nontrivial=True, sample=None):
        self.evaluations += 1
        if nontrivial:
            h = hashlib.sha1(case_key.encode("utf-8", "replace")).digest()[:10]
            self.distinct.add(h)
        if sample is not None and len(self.samples) < 12:
            self.samples.append(sample)

    def bump(self, name, k=1):
        self.dist[name] = self.dist.get(name, 0) + k

    def violation(self, key, desc, replay):
        """A direct failure of the property on the implementation."""
        e = self.known.match(self.prop, key)
        if e is not None:
            self.known_hits[key] = e
            return
        self.violations.append((key, desc, replay, True))

    def disagreement(self, key, desc, replay):
        """Model and implementation differ (tie broken); not by itself a failing input."""
        self.model_disagreements.append((key, desc, replay))

    def broken_tie(self, what, detail):
        self.broken.append((what, detail))

    def set_proof(self, obligations, discharged, thms):
        self.obligations += obligations
        self.discharged += discharged
        self.theorems += thms

    def finish(self):
        os.makedirs(EVIDENCE, exist_ok=True)
        os.makedirs(REPLAYS, exist_ok=True)
        for fn in os.listdir(REPLAYS):
            if fn.startswith("%s_%s_" % (self.prop, self.tier)):
                os.remove(os.path.join(REPLAYS, fn))
        lines = []
        for key, e in self.known_hits.items():
            lines.append("KNOWN-FINDING: property=%s %s" % (self.prop, e["description"]))
        nviol = 0
        for i, (key, desc, replay, _) in enumerate(self.violations[:5]):
            path = os.path.join(REPLAYS, "%s_%s_%d.json" % (self.prop, self.tier, i))
            json.dump({"property": self.prop, "kind": "failing-input", "key": key, "description": desc,
                       "replay": replay, "seed": self.seed}, open(path, "w"), indent=1)
            lines.append("VIOLATION property=%s replay=%s" % (self.prop, path))
            nviol += 1
        if not self.violations and (self.broken or self.model_disagreements):
            path = os.path.join(REPLAYS, "%s_%s_tie.json" % (self.prop, self.tier))
            json.dump({"property": self.prop, "kind": "broken-proof-or-correspondence",
                       "broken": [{"what": w, "detail": d} for w, d in self.broken],
                       "disagreements": [{"key": k, "description": d, "replay": r}
                                         for k, d, r in self.model_disagreements[:10]],
                       "seed": self.seed}, open(path, "w"), indent=1)
            lines.append("VIOLATION property=%s replay=%s no-failing-input-found" % (self.prop, path))
            nviol += 1
        cov = {
            "obligations": self.obligations,
            "discharged": self.discharged if not self.broken else min(self.discharged, max(0, self.obligations - 1)),
            "checker_cmd": self.checker_cmd,
            "trusted_base": self.trusted or [
                "Lean 4.33.0 kernel; axioms propext, Classical.choice, Quot.sound only",
                "hand-written Lean model tied to /repo by the differential correspondence run (testing) and the source extractors in /verif/tools",
            ],
            "theorems": [{"name": n, "axioms": a} for n, a in self.theorems],
            "evaluations": self.evaluations,
            "distinct_nontrivial": len(self.distinct),
            "rule": self.rule,
            "samples": self.samples,
            "distribution": self.dist,
            "model_disagreements": len(self.model_disagreements),
            "known_findings_hit": sorted(self.known_hits.keys()),
        }
        cov.update(self.extra)
        ev = {
            "property_id": self.prop,
            "tier": self.tier if self.tier in ("quick", "thorough") else "quick",
            "seed": self.seed,
            "level": self.level,
            "coverage": cov,
            "assumptions": self.assumptions,
            "wall_s": round(time.time() - self.t0, 2),
            "violations": nviol,
        }
        json.dump(ev, open(os.path.join(EVIDENCE, self.prop + ".json"), "w"), indent=1, ensure_ascii=False)
        for l in lines:
            print(l)
        print("%s: %s tier=%s seed=%d obligations=%d/%d evaluations=%d distinct_nontrivial=%d wall=%.1fs" % (
            self.prop, "FAIL" if nviol else "ok", self.tier, self.seed, cov["discharged"],
            self.obligations, self.evaluations, len(self.distinct), time.time() - self.t0))
        sys.stdout.flush()
        return 1 if nviol else 0


def refresh_tables():
    """Regenerate every source-derived Lean table from /repo's working tree (best effort: the owning check reports
    an extractor that cannot read the source as its own broken tie; here a failure only leaves the previous table,
    whose proof obligations then speak for themselves)."""
    tools = os.path.join(VERIF, "tools")
    if tools not in sys.path:
        sys.path.insert(0, tools)
    import importlib
    for mod, fn in (("extract_gctrace", "main_write"), ("extract_escape_table", "main_write"),
                    ("extract_tracesites", "generate"), ("extract_number_sites", "main_write"),
                    ("extract_panic_sites", "main_write")):
        try:
            getattr(importlib.import_module(mod), fn)()
        except BaseException:  # noqa  (extractors may call sys.exit)
            pass
    try:
        subprocess.run([sys.executable, os.path.join(tools, "extract_precedence.py")],
                       stdout=subprocess.DEVNULL, stderr=subprocess.DEVNULL, timeout=300)
    except Exception:  # noqa
        pass


def prelude(rep, cli=False, extra_modules=()):
    """Rebuild harness (and CLI) from /repo's working tree, rebuild + audit proofs.
    A broken proof is recorded (the failing-input search still runs)."""
    build_harness()
    refresh_tables()
    if cli:
        build_cli()
    try:
        rep.set_proof(*check_props(rep.prop, extra_modules))
        if rep.tier == "thorough":
            # independent re-check of the compiled proofs (the toolchain's own .olean re-checker)
            mods = ["RsjProps." + rep.prop] + list(extra_modules)
            t0 = time.time()
            with Lock("lake"):
                rc, out = sh(["lake", "env", "leanchecker"] + mods, cwd=LEAN_DIR, timeout=3600)
            rep.extra["leanchecker"] = {"modules": mods, "rc": rc, "seconds": round(time.time() - t0, 1)}
            if rc != 0:
                raise BrokenTie("leanchecker rejects the compiled proofs of %s" % ", ".join(mods), out[-4000:])
    except BrokenTie as e:
        rep.obligations = max(rep.obligations, 1)
        rep.broken_tie(e.what, e.detail)
    # model drivers are built on demand by vlib.model (one executable per op)


def huge_token_probe(rep, which=("lex", "parse", "diag")):
    """Tokens, comments and expressions whose span is about 2^25 bytes long (where the compact span encoding
    switches representation): they must lex, parse, evaluate and be reported like short ones.
    The 32 MiB sources are built inside the harness (`evalbig` / `diagbig`)."""
    B = 1 << 25
    lens = [B - 2, B] if rep.tier == "quick" else [B - 4, B - 3, B - 2, B - 1, B, B + 1, B + 5, (1 << 26) - 2, 1 << 26]
    tmpl = []
    if "lex" in which:
        tmpl += [('"@"', "ok"), ("/*@*/ 1", "ok"), ("|||\n @\n|||", "ok"), ("@ + 1", "err"), ('"@', "err"), ("/*@", "err")]
    if "parse" in which:
        tmpl += [('"@" + "b"', "ok"), ('local x = "@"; std.length(x)', "ok"), ('["@"][0]', "ok"), ('{ a: "@" }.a', "ok"),
                 ('std.length("@" + "b")', "ok"), ('("@")', "ok")]
    if "diag" in which:
        tmpl += [('["@"][1]', "err"), ('{ a: "@" }.b', "err"), ('"@" - 1', "err"), ('error "@"', "err"), ('"@', "err"), ("/*@", "err"),
                 ('local x = "@"; y', "err")]
    lines, meta = [], []
    for t, want in tmpl:
        for L in lens:
            op = "diagbig" if want == "err" and "diag" in which else "evalbig"
            lines.append("%s %s %s %d" % (op, hx(t), hx("a"), L))
            meta.append((t, L, want))
    outs = impl(lines, timeout=1500, mem_limit=8 * 1024 ** 3)
    for line, (t, L, want), a in zip(lines, meta, outs):
        rep.bump("huge-token")
        rep.count("huge:" + line, True)
        if a.startswith("panic") or a.startswith("crash"):
            rep.violation("huge:" + line, "a %d-byte token in `%s` is not handled: %s" % (L, t, a[:160]), {"op": line, "impl": a[:600]})
        elif not a.startswith(want):
            rep.violation("huge:" + line, "a %d-byte token in `%s`: expected %s, answered %s" % (L, t, want, a[:100]), {"op": line, "impl": a[:600]})


def compare(rep, cases, impl_out, model_out, canon=None, label="case"):
    """cases: list of dicts with 'key'; report model/impl disagreements."""
    n = 0
    for c, a, b in zip(cases, impl_out, model_out):
        ca, cb = (canon(a), canon(b)) if canon else (a, b)
        if ca != cb:
            n += 1
            rep.disagreement(c["key"], "%s: implementation and model differ" % label,
                             {"case": c, "impl": a[:2000], "model": b[:2000]})
    return n
