#!/usr/bin/env python3
"""Entry point: check.py <Cxx> [--tier quick|thorough] [--replay path]"""
import importlib
import json
import os
import sys
import traceback

sys.path.insert(0, os.path.dirname(os.path.abspath(__file__)))
import vlib


def main():
    args = sys.argv[1:]
    if not args:
        print("usage: check.py <Cxx> [--tier quick|thorough] [--replay path]")
        return 2
    prop = args[0]
    replay = None
    i = 1
    while i < len(args):
        if args[i] == "--tier":
            os.environ["VERIF_TIER"] = args[i + 1]
            i += 2
        elif args[i] == "--replay":
            replay = args[i + 1]
            i += 2
        else:
            i += 1
    os.environ.setdefault("VERIF_TIER", "quick")
    mod = importlib.import_module("checks." + prop.lower())
    if replay:
        return mod.replay(json.load(open(replay)))
    rep = vlib.Report(prop)
    try:
        mod.run(rep)
    except vlib.BrokenTie as e:
        rep.broken_tie(e.what, e.detail)
        # the proof/tie is broken: still try to find a failing input
        try:
            if hasattr(mod, "search"):
                mod.search(rep)
        except Exception:
            rep.broken_tie("failing-input search crashed", traceback.format_exc()[-2000:])
    except Exception:
        rep.broken_tie("check crashed", traceback.format_exc()[-3000:])
    return rep.finish()


if __name__ == "__main__":
    sys.exit(main())
